#!/bin/bash
# usage: tools/run_some.sh <tier> C12 C13 ...
cd "$(dirname "$0")/.."
TIER=$1; shift
for P in "$@"; do
  S=$(date +%s)
  ./check $P --tier $TIER > .work/run_${TIER}_$P.log 2>&1
  RC=$?
  echo "$P rc=$RC $(( $(date +%s) - S ))s $(tail -1 .work/run_${TIER}_$P.log)"
done
