#!/usr/bin/env python3
"""Applies every seeded change under /verif/seeded to /repo in turn (git apply, ALWAYS undone), runs
the check that is recorded as catching it and reports whether it still does.
usage: tools/seed_regression.py [name-prefix]"""
import json, os, subprocess, sys

ONLY = {
 "C01-union-initial-values": ("C01", "*f3n*"), "C01b-refined-tuple-wrapped-as-list": ("C01", "*RV*"),
 "C02-dependent-values-shared-dict": ("C02", "*RD2*"), "C02b-floatrange-rounds-generated-value": ("C02", "gv_float*"),
 "C03-depth-filter-fast-path": ("C03", "*f9*"), "C04-union-escape-distance": ("C04", "*f10*"), "C04b-full-decider-union-guard": ("C04", "full_*"),
 "C05-tuple-first-component-only": ("C05", "*tuple2*"), "C05b-expansion-depth-transitive-productions": ("C05", "tables_expdepth_f4"),
 "C06-dsge-crossover-fromkeys": ("C06", "dsge_*f8*"), "C06b-ge-mutate-position-off-by-one": ("C06", "ge_*"),
 "C07-literal-synthesizer-shared-source": ("C07", "*_f3c*"), "C07b-stack-shared-stacks-after-failed-mapping": ("C07", "stack_fresh*"),
 "C08-spare-deviate-class-attribute": ("C08", "*float*"), "C09-dsge-mutate-copy-on-write": ("C09", "dsge_*f8"), "C09b-crossover-donor-context-overwritten": ("C09", "*crossover_f11*"),
 "C10-get-productions-aliases-grammar-list": ("C10", "*pt_f5ctx*"), "C10b-get-weights-setdefault": ("C10", "tree_pt_*"),
 "C11-list-adjust-not-reset": ("C11", "*f2blk*"), "C11b-builtin-container-fast-path": ("C11", "*f3*"),
 "C12-incumbent-snapshot-per-batch": ("C12", "single_tracker*"), "C13-parallel-dedup-zip": ("C13", "par_single*"), "C13b-scalar-minimize-first-evaluation": ("C13", "*multi_bool"),
 "C14-target-fitness-aggregate-sign": ("C14", "target*"), "C15-crossover-odd-parity": ("C15", "step_crossover*"), "C15b-stale-total-weight": ("C15", "*two_generations"),
 "C16-elitism-partial-selection-truncation": ("C16", "elitism*"), "C17-epsilon-mad-once": ("C17", "lexicase_epsilon_1case"), "C17b-lexicase-direction-by-position": ("C17", "lexicase_2cases*"),
 "C19-bisect-left-zero-weight-head": ("C19", "*zero*first*"), "C20-flush-only-on-best": ("C20", "single_objective"), "C20b-extra-fields-dropped-with-custom-fields": ("C20", "custom*"),
 "C01c-abstract-without-productions-gets-distance": ("C01", "*family*"), "C03b-tuple-members-one-level-deeper": ("C03", "*f7*"), "C05c-subtypes-indexed-by-direct-base": ("C05", "tables_generated_family*"), "C08b-dsge-crossover-key-set-union": ("C08", "operators_dsge*"), "C11c-gengylist-add-keeps-labels": ("C11", "*f15*"), "C12b-pareto-front-pruned-while-iterating": ("C12", "multi_tracker_1obj"), "C14b-tournament-evaluates-uncounted": ("C14", "loop_gp_mutation_then_tournament"), "C16b-isfinite-ranks-infinite-best-last": ("C16", "*infinite*"), "C18b-random-int-wide-range-modulo-dropped": ("C18", "decider_random_int_MaxDepthDecider"), "C19b-update-weights-skips-undeclared-rules": ("C19", "engineB_update_weights_nested_f6_first"),
 "C02c-constructor-hints-cached-per-class": ("C02", "*redeclared"), "C04c-register-only-direct-subclasses": ("C04", "*f16*"), "C06c-sge-crossover-positional-after-mutate-reorders-keys": ("C06", "*of_mutant"), "C07c-dsge-decider-reused-stale-cursors": ("C07", "dsge_*f3c*"), "C09c-dsge-crossover-setdefault-on-parents": ("C09", "dsge_crossover_f8"), "C10c-alternatives-defaultdict-read-inserts": ("C10", "stack_f5ctx_create"), "C13c-tournament-evaluates-behind-the-evaluator": ("C13", "*tournament_counts"), "C15c-elitism-dedups-repeated-objects": ("C15", "step_elitism_repeats"), "C17c-key-function-reads-first-stored-fitness": ("C17", "*another_problem"), "C20c-simplegp-extra-fields-late-bound-again": ("C20", "simplegp_two_extra_fields"),
}
root = "/verif/seeded"
prefix = sys.argv[1] if len(sys.argv) > 1 else ""
bad = 0
for name in sorted(os.listdir(root)):
    if not name.startswith(prefix):
        continue
    patch = os.path.join(root, name, "patch.diff")
    prop, only = ONLY[name]
    chk = subprocess.run(["git", "-C", "/repo", "apply", "--check", patch], capture_output=True, text=True)
    if chk.returncode != 0:
        print(f"{name}: PATCH DOES NOT APPLY to current /repo ({chk.stderr.strip().splitlines()[-1][:80]})")
        bad += 1
        continue
    r = subprocess.run(["/verif/tools/try_seed.py", patch, prop, "--only", only], capture_output=True, text=True)
    caught = f"== {prop} exit=1" in r.stdout and "VIOLATION" in r.stdout
    first = next((l.strip() for l in r.stdout.splitlines() if "obligation=" in l), "")
    print(f"{name}: {'CAUGHT' if caught else 'NOT CAUGHT'} by {prop} --only {only}  {first[:150]}")
    bad += 0 if caught else 1
sys.exit(1 if bad else 0)
