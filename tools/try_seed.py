#!/usr/bin/env python3
"""Apply a seeded change to /repo, run the given checks, ALWAYS undo the change.
usage: tools/try_seed.py <patch.diff> <Cxx> [<Cyy> ...] [--tier quick|thorough] [--only GLOB]
Evidence / replay files written during the run are restored from git afterwards."""
import subprocess
import sys

args = sys.argv[1:]
tier, only = "quick", None
if "--tier" in args:
    i = args.index("--tier"); tier = args[i + 1]; del args[i:i + 2]
if "--only" in args:
    i = args.index("--only"); only = args[i + 1]; del args[i:i + 2]
patch, props = args[0], args[1:]
st = subprocess.run(["git", "-C", "/repo", "status", "--porcelain", "--untracked-files=no"], capture_output=True, text=True).stdout.strip()
if st:
    sys.exit("/repo is not clean:\n" + st)
subprocess.run(["git", "-C", "/repo", "apply", patch], check=True)
try:
    for p in props:
        cmd = ["/verif/check", p, "--tier", tier] + (["--only", only] if only else [])
        r = subprocess.run(cmd, capture_output=True, text=True, cwd="/verif")
        lines = [l for l in r.stdout.splitlines() if l.startswith(("VIOLATION", "   obligation=", "HARNESS-ERROR", "INCONCLUSIVE", "KNOWN-FINDING", "STALE")) or l.startswith(p + " ")]
        print(f"== {p} exit={r.returncode}")
        for l in lines:
            print("  ", l[:330])
finally:
    subprocess.run(["git", "-C", "/repo", "checkout", "--", "."], check=True)
    subprocess.run(["git", "-C", "/verif", "checkout", "--", "evidence", "replays"], check=False)
    subprocess.run(["git", "-C", "/verif", "clean", "-fdq", "replays"], check=False)
