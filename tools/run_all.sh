#!/bin/bash
# runs every property's check for one tier, sequentially; prints one summary line per property
cd "$(dirname "$0")/.."
TIER=${1:-quick}
for i in $(seq -w 1 20); do
  P=C$i
  S=$(date +%s)
  ./check $P --tier $TIER > .work/run_all_$P.log 2>&1
  RC=$?
  echo "$P rc=$RC $(( $(date +%s) - S ))s $(tail -1 .work/run_all_$P.log)"
done
