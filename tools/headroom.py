#!/usr/bin/env python3
"""lists obligations whose CPU time is above a fraction of their budget (from evidence files)"""
import glob, json, sys, importlib
sys.path.insert(0, '/verif')
from vf.engine import envstubs; envstubs.install()
frac = float(sys.argv[1]) if len(sys.argv) > 1 else 0.4
for f in sorted(glob.glob('/verif/evidence/C??.json')):
    e = json.load(open(f))
    mod = importlib.import_module('vf.props.' + e['property_id'].lower())
    obs = {o.name: o for o in mod.obligations(e['tier'])}
    for s in e['coverage']['samples']:
        o = obs.get(s['obligation'])
        if o and s['cpu_s'] > frac * o.timeout * 2.5:
            print(e['property_id'], s['obligation'], 'cpu', s['cpu_s'], 'budget', o.timeout * 2.5, s['status'])
