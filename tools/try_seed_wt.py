#!/usr/bin/env python3
"""Run checks against a scratch worktree of the repository that has a seeded change applied
(nothing in /repo or in /verif's evidence/replays is touched).
usage: tools/try_seed_wt.py <worktree> <Cxx> [<Cyy> ...] [--tier quick|thorough] [--only GLOB]"""
import os
import subprocess
import sys
import tempfile

args = sys.argv[1:]
tier, only = "quick", None
if "--tier" in args:
    i = args.index("--tier"); tier = args[i + 1]; del args[i:i + 2]
if "--only" in args:
    i = args.index("--only"); only = args[i + 1]; del args[i:i + 2]
wt, props = os.path.realpath(args[0]), args[1:]
out = tempfile.mkdtemp(prefix="seedout_")
env = dict(os.environ, VERIF_REPO=wt, PYTHONPATH=wt, VERIF_OUT=out)
chk = subprocess.run(["/verif/.venv/bin/python", "-c", "import geneticengine; print(geneticengine.__file__)"], env=env, capture_output=True, text=True).stdout.strip()
assert chk.startswith(wt), chk
for p in props:
    cmd = ["/verif/check", p, "--tier", tier] + (["--only", only] if only else [])
    r = subprocess.run(cmd, capture_output=True, text=True, cwd="/verif", env=env)
    lines = [l for l in r.stdout.splitlines() if l.startswith(("VIOLATION", "   obligation=", "HARNESS-ERROR", "INCONCLUSIVE", "KNOWN-FINDING", "STALE")) or l.startswith(p + " ")]
    print(f"== {p} exit={r.returncode}")
    for l in lines:
        print("  ", l[:330])
subprocess.run(["rm", "-rf", out])
