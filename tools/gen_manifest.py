#!/usr/bin/env python3
"""Regenerates MANIFEST.json from the table below (claimed checks) and properties.jsonl."""
import json
import os

V = os.path.dirname(os.path.dirname(os.path.abspath(__file__)))
props = [json.loads(l) for l in open(os.path.join(V, "properties.jsonl"))]

TECH = "bounded symbolic execution of the real code (CrossHair/z3): path-tree exhaustion per obligation, counterexamples replayed concretely"
NOTE = ("Trusted: CrossHair 0.0.110 + z3, the overlay venv, the environment stubs listed in the evidence file (logging stripped, clock = 0, "
        "isinstance shim), the harness oracles under /verif/vf. Grammars are a fixed corpus (classes cannot be symbolic); all bounds are in evidence.assumptions.")

CLAIMED = {
    "C08": dict(
        text="Two identically configured searches (random search, hill climbing, (1+1), GP; all five representations) are executed in one symbolic "
             "path on the SAME symbolic random stream (the k-th draw of both is the same solver term), the second one either on the same objects (same "
             "process, one after the other) or on a freshly extracted grammar whose classes have a different, symbolically chosen hash order so that the "
             "repository's own sets of classes iterate differently (another process); the sequences of programs handed to the fitness function and the "
             "returned best / fitness must be structurally identical on every path. The variation operators are also run on their own (create two genotypes, cross over, map; stack: map) under permuted hashes on a "
             "second fixture with two abstract symbols whose refinement objects have harness-chosen hashes too. Path trees exhausted. Bounds: budgets <= 3 (thorough 4), "
             "population 2, 4-class / 6-class fixtures (3 hash orders in the quick tier), depth <= 2; real allocator / ASLR / import-order effects outside.",
        design_ref="DESIGN.md section 4 (C08)",
    ),
    "C04": dict(
        text="For finite-choice grammars the real grow / full / PI-grow creation is explored over ALL sequences of random decisions: the symbolic path "
             "tree of create_genotype is exhausted with leaf values realised at the end of each path, so the set of programs collected is exactly the set "
             "reachable under any random stream; it is compared with an independent recursive enumerator of the bounded language L_d (well-typed, "
             "refinement-satisfying programs of depth <= d): reached == L_d for grow, == the programs of L_d all of whose branches end at depth d for "
             "FullInitializer, subset of L_d for PI-grow, and every single reached program is checked for membership on its own path. This is model "
             "enumeration (exhaustive: true), not one for-all query; a missing program is re-established by a concrete enumeration of every draw "
             "sequence. Bounds: d <= 3, |L_d| up to a few hundred, corpus of eight hand-written finite-choice grammars plus a strided sample of a generated family of "
             "1728 hierarchies (members with |L_3| <= 30).",
        design_ref="DESIGN.md section 4 (C04)",
        technique="all-models enumeration by exhausting the symbolic path tree of the real creation code (CrossHair/z3) vs an independent language enumerator",
    ),
    "C05": dict(
        text="For every corpus hierarchy (abstract layers, @abstract, non-dataclass productions, unreachable classes, base / list / annotated / union / "
             "tuple fields, self, mutual and through-container recursion) the extracted grammar's productions, per-symbol minimum depths, recursive set "
             "and usable sub-grammar are compared with an independent least-fixpoint analysis of the class declarations; the inner quantifiers are "
             "discharged by the solver on the real create_node driven by a decider that may pick ANY alternative: every derivation up to depth min+1 "
             "(thorough min+2) is at least as deep as the reported minimum, a derivation of exactly the reported minimum exists (witness replayed), every "
             "symbol reported recursive has a derivation that expands it again (witness) and the others have none up to depth 3-4. The tables are also compared on the grammars shipped with the repository and on every member of a generated family of 1728 "
             "hierarchies (every third in the quick tier), in both counting modes - that part is plain enumeration of hierarchies with a concrete comparison. "
             "Bounded by the corpus and those depths.",
        design_ref="DESIGN.md section 4 (C05)",
    ),
    "C19": dict(
        text="Engine B: the current source of Grammar.get_weights and of the WHOLE of Grammar.update_weights (normalisation, write-back into the class "
             "declarations, re-initialisation) is interpreted over real classes whose declared weights are z3 Reals >= 0 (each rule with positive total), "
             "for rule structures of 1-4 productions, two rules, two- and three-level nesting and every listed subset of productions carrying a declaration "
             "(the others count as weight one), three extractions in a row: non-negativity, sum-to-one per rule, cross-multiplied ratio preservation and "
             "'the second and third extraction change nothing' are each discharged as unsat (nonlinear real arithmetic); a sat model is replayed by "
             "extracting real classes declared with the model's weights; the encoding is validated against the real extraction on every run. Engine A: ProgressivelyTerminalDecider and the weighted choice used by the stack mapper run over the weighted grammar "
             "with symbolic draws and depth: the chosen production never has weight 0, and no program created under the weight-aware decider contains the "
             "zero-weight production. Bounds: rules of <= 4 productions, <= 3 nesting levels, depth / draw fuel as stated.",
        design_ref="DESIGN.md section 4 (C19)",
        technique="own AST->z3 interpretation of update_weights / get_weights over Reals (engine B, NRA unsat per claim, sat models replayed on real classes) + bounded symbolic execution of the choosers (CrossHair)",
    ),
    "C09": dict(
        text="Mutation and crossover of all five representations and every built-in step (elitism, novelty, tournament, lexicase, mutation, crossover, "
             "sequence, parallel, exclusive parallel) run on parents / populations created by the real code over symbolic draws; a by-value-and-identity "
             "snapshot of every input (tree structure with all node metadata, type index by identity, synthesis contexts, gengy_init_values identity; gene "
             "containers by identity and content; individual genotype, phenotype, metadata, cached fitness; the population list itself) taken before is "
             "compared after the operation and again after the offspring were varied once more; offspring must not share gene containers with parents. "
             "Path trees exhausted. Bounds: tree depth <= 2, gene length <= 4, populations of 2, two consecutive operations.",
        design_ref="DESIGN.md section 4 (C09)",
    ),
    "C20": dict(
        text="CSVSearchRecorder (default fields, extra fields) and SimpleGP.build_recorder's wrapping of user callbacks run under the real single- and "
             "multi-objective trackers with symbolic fitness selectors, symbolic direction and recording mode; the file is really written, and after "
             "construction and after EVERY registration the bytes on disk are re-read and parsed by an independent splitter: complete final line, "
             "header == configured fields, every row of the header's arity, rows == registrations that should have been written, and in each row "
             "FitnessK == the K-th component of THAT individual and every extra column == its own callback on that individual's program. Every "
             "evaluation history (ties, improvements, non-improvements) is a path; path trees exhausted. Bounds: 1-3 objectives, 2-4 registrations, "
             "0-2 extra fields, rows far below the stdio buffer.",
        design_ref="DESIGN.md section 4 (C20)",
    ),
    "C16": dict(
        text="ElitismStep (list and one-shot iterator input, with duplicate individuals), sort_population / best_individual / is_better and one "
             "generation of a ParallelStep that reserves an elitism slot run with the fitness of every individual a symbolic selector into a table of "
             "distinct values, the direction and the elite count k symbolic: exactly k members of the input, never more copies than present, no excluded "
             "individual strictly better than an included one; best aggregate of the next generation >= the current one (inductive step for monotone "
             "best fitness). Every weak order with ties is a path; path trees exhausted. Bounds: population 4 (thorough 5), table of 2-3 values.",
        design_ref="DESIGN.md section 4 (C16)",
    ),
    "C17": dict(
        text="TournamentSelection and LexicaseSelection (plain and epsilon) run with symbolic fitness selectors, symbolic optimisation directions, "
             "symbolic target and EVERY outcome of the random draws (symbolic randint under the repository's own choice/shuffle): each tournament "
             "winner is a population member, was drawn for its tournament and is at least as fit as every participant (participants observed per "
             "choice call); each lexicase winner is an available candidate, never returned more often than present, and survives an independent "
             "lexicase filter for at least one of ALL case orders over the candidates still available. Path trees exhausted. Bounds: population 2-3, "
             "tournament size 1..population+1, 1-2 cases, tables of 2-3 values.",
        design_ref="DESIGN.md section 4 (C17)",
    ),
    "C15": dict(
        text="Engine B: the current source of ParallelStep.compute_ranges (shared by ExclusiveParallelStep) is interpreted into z3 integer/rational "
             "terms with population length and target size SYMBOLIC (1 <= target <= population <= 10^5) for every weight vector of a finite family "
             "(all of {0..4}^k, k<=3 quick; {0..6}^k, k<=4 thorough; plus the vectors used in the repository, incl. fractional ones): unsat of 'slices "
             "negative or not adding up to the target' per vector; the encoding is differentially validated against the real method on every run and "
             "every sat model is replayed on the real method. Engine A: every built-in step, combinator nesting and initialiser is executed with "
             "symbolic target k, population size m >= k, symbolic probabilities / weights / tournament sizes / injected-list lengths and symbolic draws, "
             "with the population passed as list, Population and one-shot iterator: exactly k individuals on every path; plus real GP generation loops "
             "whose every generation must have exactly population_size members. Bounded: k <= 3-4, m <= 4-5, nesting depth <= 3.",
        design_ref="DESIGN.md section 4 (C15)",
        technique="own AST->z3 encoding of the rounding kernel (engine B, z3 Int/Real, per-vector unsat) + bounded symbolic execution of the steps (CrossHair)",
    ),
    "C14": dict(
        text="The real search() loops of random search, (1+1), hill climbing and GP run with the evaluation budget n a symbolic integer, symbolic "
             "neighbourhood / population sizes and, for GP, a symbolic number of fresh individuals per generation (plus the built-in mutation, elitism, "
             "novelty and tournament steps); an invocation log is the oracle: the search returns, n <= total < n + batch, total == counter, and no "
             "check before the last one already met the budget. EvaluationBudget's predicate is decided for symbolic counter and limit up to 10^6, "
             "AnyOf as a short-circuit disjunction over symbolic members, TargetFitness against a reference stop point over all fitness histories. "
             "Non-termination shows up as loop-fuel exhaustion and is replayed. Bounds: n <= 6 (thorough: 10, GP loops 7-8), sizes <= 3-4.",
        design_ref="DESIGN.md section 4 (C14)",
    ),
    "C13": dict(
        text="SequentialEvaluator and ParallelEvaluator (pool replaced by its documented map contract), Individual's fitness cache, both problem classes "
             "(incl. the default multi-objective aggregate with per-component and scalar minimize) and Population run on populations whose size, "
             "pre-evaluated subset and repeated positions are symbolic, with per-program symbolic fitness values. An append-only invocation log kept by "
             "the fitness stub is the oracle: recorded components == the stub's value for that individual's program, aggregate == v / -v / signed sum, "
             "<= 1 invocation per (individual, problem), evaluator counter == number of invocations, both evaluators leave identical stores and counters. "
             "Path trees exhausted. Bounds: populations of 1-3 (thorough 4), two problems, tables of 2 values.",
        design_ref="DESIGN.md section 4 (C13)",
    ),
    "C12": dict(
        text="The real single- and multi-objective trackers, fed individuals one at a time and in batches, and the real search() of random search, "
             "hill climbing, (1+1) and GP (opaque-token representation) run with the fitness of every program chosen by a symbolic selector into a small "
             "table of distinct values and the optimisation direction(s) symbolic: every weak order of the history, with all tie patterns, is a path. "
             "After every evaluation the reported best must dominate everything evaluated so far, the recorder's is_best flag must equal 'first or "
             "strictly better than all earlier', every multi-objective best must attain the best aggregate, and search() must return the tracker's best, "
             "which must have been evaluated. Path trees exhausted. Bounds: histories of 4 (thorough 5-6) evaluations, tables of 2-4 values, budgets <= 5.",
        design_ref="DESIGN.md section 4 (C12)",
    ),
    "C06": dict(
        text="Parents are produced by the real create_genotype over a symbolic source (so genes / tree shapes and leaf values are free), the real "
             "crossover / mutate of each representation and the generic crossover / mutation steps are executed with symbolic draws, and the offspring "
             "relation is asserted on every path: trees - child equals parent with at most one subtree replaced by a structurally equal, type-compatible "
             "subtree of the other parent (simultaneous-descent oracle independent of the type index); linear - every locus holds the gene of one of "
             "the parents at that locus, lengths preserved; structured - same key set, per-locus parental genes; mutation - Hamming distance <= 1 and "
             "shape preserved. Gene identity is decided on solver terms, not sampled values. Path trees exhausted. Bounds: tree depth <= 2, gene length "
             "<= 4 (thorough 8), structured genotypes on <= 5-key grammars.",
        design_ref="DESIGN.md section 4 (C06)",
    ),
    "C07": dict(
        text="For GE, structured GE, dynamic structured GE and the stack representation a genotype with fully symbolic genes (also after a symbolic "
             "mutation / crossover) is mapped twice by the real genotype_to_phenotype, with arbitrary symbolic draws of the search's shared stream in "
             "between; on every path the two programs must be structurally equal, mapping must make no draw on the shared stream (dSGE: only from inside "
             "Genotype.get, and none on the second mapping) and must fail both times or neither. Path trees exhausted. Bounds: gene length <= 6, depth <= "
             "3, corpus grammars with refined, dependent, list, tuple and union fields; stack mapper fuel-bounded.",
        design_ref="DESIGN.md section 4 (C07)",
    ),
    "C11": dict(
        text="Every program produced by the create/map/mutate/crossover pipelines (all deciders, all representations, grammars with nodes inside lists, "
             "tuples and unions), with all draws symbolic, is traversed by an independent reference that recomputes node count, distance to terminal, "
             "weighted size and the per-class index of descendants from the actual structure and compares them with the labels found on EVERY node; in "
             "addition a stripped deep copy is relabelled from the root and must agree (history independence: no stale labels on reused subtrees). "
             "Path trees exhausted per obligation. Bounds: depth <= 3, one variation step, default counting mode (expansion_depthing=False).",
        design_ref="DESIGN.md section 4 (C11)",
    ),
    "C10": dict(
        text="Every create/map/mutate/crossover pipeline of every representation is run on grammars that force internal backtracking (dependent "
             "refinements that make a production infeasible in some contexts) and on weighted grammars, with all draws symbolic; a by-value snapshot of "
             "the grammar (productions with order, minimum depths, recursive set, node sets, weights) taken before is compared with one taken after on "
             "EVERY path, including paths on which the operation fails. Path trees exhausted. Bounds: depth <= 2-3, <= 2 (thorough 3) consecutive "
             "operations on one grammar object, corpus grammars f5ctx,f6,f1,f4.",
        design_ref="DESIGN.md section 4 (C10)",
    ),
    "C03": dict(
        text="For each corpus grammar the minimum depth m is computed by an independent least-fixpoint oracle; for every max_depth in {m, m+1, m+2} "
             "(thorough m+3) the real deciders (grow, full, PI-grow, dSGE), used directly, through GE/SGE mapping and after mutation/crossover, are "
             "executed with all draws/genes symbolic: construction and creation must succeed on EVERY path and an independent depth oracle must stay "
             "<= max_depth; for m-1 a GeneticEngineError must be raised before any node is constructed (constructor-call counter). Path trees are "
             "exhausted. Bounds: corpus grammars f0,f1,f3,f4(+f3b), limits up to m+3, one or two variation steps.",
        design_ref="DESIGN.md section 4 (C03)",
    ),
    "C02": dict(
        text="(a) generator/validator agreement per shipped metahandler with the refinement PARAMETERS themselves symbolic (integer bounds, sizes, "
             "element lists) and every draw symbolic: generate() then an independent documented predicate and the handler's own validate() must hold on "
             "every path; (b) the create/map/mutate pipelines of all representations on grammars using every refinement, with an independent "
             "refinement oracle (dependent refinements re-evaluated on the actual sibling values) asserted on every produced program. Path trees are "
             "exhausted per obligation. Bounds: parameters in [-6,6] (thorough [-40,40]), sizes <= 3-5, depth <= 3, fixed grammar corpus.",
        design_ref="DESIGN.md section 4 (C02)",
    ),
    "C01": dict(
        text="create -> map -> mutate/crossover pipelines of all five representations and all four deciders run on the real code with every random "
             "draw and every gene a free z3 integer; an independent well-typedness oracle (typing/dataclasses introspection only) is asserted on every "
             "produced program and any exception other than the library's own error types is a violation. Each (fixture, representation, decider, "
             "operation) obligation's path tree is exhausted: one path per program shape, leaf values symbolic. Bounds: fixed grammar corpus, depth <= 3 "
             "(4 thorough), gene lengths <= 6, one or two operations, draw/gene-read fuel for the unbounded deciders and the stack mapper.",
        design_ref="DESIGN.md section 4 (C01)",
    ),
    "C18": dict(
        text="For every primitive of RandomSource, the three genotype-backed sources and the deciders' bounded integer draw, the real code is executed "
             "symbolically with the underlying uniform draw / the genes as free z3 integers (bounds from a fixed set incl. negative, equal, >1000 and "
             "platform-limit widths); each obligation's path tree is exhausted, so the contract holds for every draw and every gene value within the "
             "stated list lengths (<=4-5) - not for sampled ones. Same-seed equality is checked with random.Random replaced by an uninterpreted "
             "function of (seed, position). Bounded model checking, not proof: list lengths, weight magnitudes and call-sequence lengths are bounded.",
        design_ref="DESIGN.md section 4 (C18)",
    ),
}

NA_REASON = "check not built yet (work in progress; see DESIGN.md section 4 for the planned solver-based check)"

m = {
    "version": 1,
    "setup_cmd": "./setup.sh",
    "hooks": {
        "guard": "GENETICENGINE_VERIF",
        "enable": "no source hooks: all instrumentation is harness-side (import hook stripping log statements, module-attribute stubs, fixture classes); the guard variable is reserved and unused",
        "baseline_off_cmd": "cd /repo && /venv/bin/python -m pytest -ra -q -p no:cacheprovider --timeout=900 --continue-on-collection-errors",
        "source_commits": [],
        "add_only": True,
    },
    "engines": [
        {"name": "engine-A", "path": "vf/engine", "serves_properties": sorted(CLAIMED), "kind_free_text": "CrossHair symbolic execution of /repo code over fresh z3 integers (random draws, genes, configuration), per-obligation subprocess, concrete replay of every counterexample"},
    ],
    "checks": [],
    "not_applicable": [],
    "notes": "Exit codes: 0 held (possibly KNOWN-FINDING / INCONCLUSIVE lines), 1 VIOLATION, 3 harness error. known_findings.json lists open findings and fixed defects.",
}
for p in props:
    pid = p["id"]
    if pid in CLAIMED:
        c = CLAIMED[pid]
        m["checks"].append({
            "property_id": pid,
            "quick_cmd": f"./check {pid} --tier quick",
            "thorough_cmd": f"./check {pid} --tier thorough",
            "evidence_file": f"/verif/evidence/{pid}.json",
            "replay_cmd_template": "./check --replay {path}",
            "engine": "engine-A",
            "level_claimed": {"category": "model_checking", "text": c["text"], "design_ref": c["design_ref"]},
            "level_note": c.get("note", NOTE),
            "technique": c.get("technique", TECH),
        })
    else:
        m["not_applicable"].append({"property_id": pid, "reason": NA_REASON})
json.dump(m, open(os.path.join(V, "MANIFEST.json"), "w"), indent=1)
print("claimed:", sorted(CLAIMED), "not applicable:", len(m["not_applicable"]))
