"""F3c: unrefined bool field and an unrefined (bare) list: literal values and list lengths that the
decider draws itself (cheap to explore: no wide-range integer synthesis)."""
from abc import ABC
from dataclasses import dataclass

from geneticengine.grammar.grammar import extract_grammar


class Root(ABC):
    pass


@dataclass
class BB(Root):
    b: bool


@dataclass
class BL(Root):
    items: list[BB]


CLASSES = [BB, BL]
START = Root


def grammar(**kw):
    return extract_grammar(list(CLASSES), START, **kw)


def grammar_bool(**kw):
    return extract_grammar([BB], START, **kw)
