"""F17: a refinement declared after the class exists, by assigning to __init__.__annotations__ (the
idiom of the metahandler docstrings: `Var.__init__.__annotations__["name"] = Annotated[str,
VarRange(...)]`), and declared AGAIN before a second grammar is extracted from the same class."""
from abc import ABC
from dataclasses import dataclass
from typing import Annotated

from geneticengine.grammar.grammar import extract_grammar
from geneticengine.grammar.metahandlers.ints import IntRange


class Root(ABC):
    pass


@dataclass
class V(Root):
    x: int


@dataclass
class W(Root):
    v: V


CLASSES = [V, W]
START = Root


def declare(lo: int, hi: int):
    V.__init__.__annotations__["x"] = Annotated[int, IntRange(lo, hi)]


declare(0, 1)


def grammar(**kw):
    return extract_grammar(list(CLASSES), START, **kw)
