"""F1 with a two-valued leaf (finite-choice variant used by C04 and witness queries)."""
from abc import ABC
from dataclasses import dataclass
from typing import Annotated

from geneticengine.grammar.grammar import extract_grammar
from geneticengine.grammar.metahandlers.ints import IntRange


class Expr(ABC):
    pass


@dataclass
class Leaf(Expr):
    x: Annotated[int, IntRange(0, 1)]


@dataclass
class Neg(Expr):
    e: Expr


@dataclass
class Plus(Expr):
    a: Expr
    b: Expr


CLASSES = [Leaf, Neg, Plus]
START = Expr


def grammar(**kw):
    return extract_grammar(list(CLASSES), START, **kw)
