"""F10: the shallowest production of an abstract type mentions that type inside a union with a
shallow standalone alternative: A ::= Cons(tail: Union[A, Nil]) | Pair(l: Box, r: Box)."""
from abc import ABC
from dataclasses import dataclass
from typing import Union

from geneticengine.grammar.grammar import extract_grammar


class A(ABC):
    pass


@dataclass
class Nil:
    pass


@dataclass
class Box:
    v: Nil


@dataclass
class Cons(A):
    tail: Union[A, Nil]


@dataclass
class Pair(A):
    l: Box
    r: Box


CLASSES = [Cons, Pair, Box, Nil]
START = A


def grammar(**kw):
    return extract_grammar([Cons, Pair], START, **kw)
