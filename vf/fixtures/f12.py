"""F12: every abstract type recursive; one field is a union of a leaf production and a recursive
production (full creation must keep preferring the recursive member until the frontier)."""
from abc import ABC
from dataclasses import dataclass
from typing import Union

from geneticengine.grammar.grammar import extract_grammar


class A(ABC):
    pass


@dataclass
class Leaf(A):
    pass


@dataclass
class Bin(A):
    left: A
    right: A


@dataclass
class Neg(A):
    arg: Union[Leaf, Bin]


CLASSES = [Leaf, Bin, Neg]
START = A


def grammar(**kw):
    return extract_grammar(list(CLASSES), START, **kw)
