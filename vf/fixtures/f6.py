"""F6 weights: a subset of productions weighted, a zero weight, a nested abstract layer."""
from abc import ABC
from dataclasses import dataclass
from typing import Annotated

from geneticengine.grammar.decorators import abstract, weight
from geneticengine.grammar.grammar import extract_grammar
from geneticengine.grammar.metahandlers.ints import IntRange

DECLARED = {}


def _w(x):
    def deco(c):
        DECLARED[c.__name__] = x
        return weight(x)(c)

    return deco


class Root(ABC):
    pass


@_w(3)
@dataclass
class A(Root):
    x: Annotated[int, IntRange(0, 1)]


@_w(0)
@dataclass
class Z(Root):
    x: Annotated[int, IntRange(0, 1)]


@dataclass
class B(Root):  # unweighted: counts as 1
    r: Root


@abstract
class Sub(Root):
    pass


@_w(2)
@dataclass
class S1(Sub):
    x: Annotated[int, IntRange(0, 1)]


@_w(6)
@dataclass
class S2(Sub):
    x: Annotated[int, IntRange(0, 1)]


CLASSES = [A, Z, B, Sub, S1, S2]
START = Root


def reset_weights():
    for c in CLASSES + [Root]:
        d = c.__dict__.get("__gengy__")
        if d is not None:
            d.pop("weight", None)
            if c.__name__ in DECLARED:
                d["weight"] = DECLARED[c.__name__]


def grammar(**kw):
    reset_weights()
    return extract_grammar(list(CLASSES), START, **kw)


def grammar_zero_first(**kw):
    """the zero-weight production is the FIRST production of its rule"""
    reset_weights()
    return extract_grammar([Z, A, B, Sub, S1, S2], START, **kw)
