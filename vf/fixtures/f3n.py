"""F3n: a union-typed field that comes after sibling fields whose NAMES also occur in the union's
alternatives with other types / refinements (scoping of dependent and initial values)."""
from abc import ABC
from dataclasses import dataclass
from typing import Annotated, Union

from geneticengine.grammar.grammar import extract_grammar
from geneticengine.grammar.metahandlers.ints import IntRange


class Root(ABC):
    pass


@dataclass
class Leaf(Root):
    x: Annotated[int, IntRange(0, 1)]


@dataclass
class Deep(Root):
    inner: Leaf


@dataclass
class Named(Root):
    x: bool
    inner: Annotated[int, IntRange(5, 6)]
    u: Union[Leaf, Deep]


CLASSES = [Leaf, Deep, Named]
START = Root


def grammar(**kw):
    return extract_grammar(list(CLASSES), START, **kw)
