"""A generated family of small class hierarchies (C05's outer quantifier): one or two abstract
types, a terminal production, two more productions whose parent and fields range over a small
alphabet of type forms (refined int, the abstract types, lists, unions, tuples, refined lists).
Plain enumeration - the classes are built with type() / dataclasses.make_dataclass."""
from __future__ import annotations

import itertools
from abc import ABC
from dataclasses import make_dataclass
from typing import Annotated, Union

from geneticengine.grammar.decorators import abstract
from geneticengine.grammar.metahandlers.ints import IntRange
from geneticengine.grammar.metahandlers.lists import ListSizeBetween


def _field_options(R0, R1, Leaf):
    I = Annotated[int, IntRange(0, 1)]
    return [
        (),
        (("i", I),),
        (("a", R0),),
        (("b", R1),),
        (("l", Leaf), ("a", R0)),
        (("xs", Annotated[list[R0], ListSizeBetween(1, 2)]),),
        (("ys", Annotated[list[R1], ListSizeBetween(1, 1)]),),
        (("u", Union[Leaf, R0]),),
        (("u", Union[R1, Leaf]),),
        (("t", tuple[Leaf, R0]),),
        (("t", tuple[R1, Leaf]),),
        (("a", R0), ("b", R1)),
    ]


def hierarchies(limit=None, stride=1):
    count = 0
    n = 0
    # "omit": nested, but the intermediate abstract class is not in the supplied list (it is then
    # only known through the supplied classes below it, or through a field that names it)
    for nested in (False, True, "omit"):
        for (p1, p2) in itertools.product((0, 1), repeat=2):
            for (f1, f2) in itertools.product(range(12), repeat=2):
                n += 1
                if n % stride:
                    continue
                R0 = type("R0", (ABC,), {})
                if nested:
                    R1 = abstract(type("R1", (R0,), {}))
                else:
                    R1 = type("R1", (ABC,), {})
                Leaf = make_dataclass("Leaf", [("v", Annotated[int, IntRange(0, 1)])], bases=(R0,))
                opts = _field_options(R0, R1, Leaf)
                P1 = make_dataclass("P1", list(opts[f1]), bases=((R0, R1)[p1],))
                P2 = make_dataclass("P2", list(opts[f2]), bases=((R0, R1)[p2],))
                for c in (R0, R1, Leaf, P1, P2):
                    c.__module__ = __name__
                classes = [Leaf, P1, P2] + ([R1] if nested is True else [])
                yield (f"fam[nested={nested if nested == 'omit' else int(nested)},parents={p1}{p2},fields={f1},{f2}]", classes, R0)
                count += 1
                if limit and count >= limit:
                    return


class _Hier:
    def __init__(self, label, classes, start):
        self.label = label
        self.CLASSES = list(classes)
        self.START = start
        self.__name__ = "vf.fixtures.family:" + label

    def grammar(self, **kw):
        from geneticengine.grammar.grammar import extract_grammar

        return extract_grammar(list(self.CLASSES), self.START, **kw)


def get(index: int) -> _Hier:
    """the index-th hierarchy of the family (fresh classes on every call)"""
    for k, (label, classes, start) in enumerate(hierarchies()):
        if k == index:
            return _Hier(label, classes, start)
    raise IndexError(index)


def interesting(max_depth=3, max_language=300, every=1):
    """indices of hierarchies whose bounded language at max_depth is non-empty and small (finite
    choice, terminating), for the solver-backed obligations"""
    from vf.oracles import grammar as OG
    from vf.oracles import language as OL

    out = []
    for k, (label, classes, start) in enumerate(hierarchies()):
        h = _Hier(label, classes, start)
        a = OG.Analysis(classes, start)
        if a.min_depth[start] > max_depth:
            continue
        try:
            n = len(OL.language(h, max_depth))
        except Exception:
            continue
        if 0 < n <= max_language:
            out.append(k)
    return out[::every]
