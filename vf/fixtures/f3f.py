"""F3f: one production with an unrefined float field (the decider synthesises the value with
normalvariate on whatever random source it is bound to)."""
from abc import ABC
from dataclasses import dataclass

from geneticengine.grammar.grammar import extract_grammar


class Root(ABC):
    pass


@dataclass
class CF(Root):
    value: float


CLASSES = [CF]
START = Root
ALL = [Root, CF]


def set_hashes(perm):
    pass


def grammar(**kw):
    return extract_grammar(list(CLASSES), START, **kw)
