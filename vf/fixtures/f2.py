"""F2 lists: sized list of concrete, bare list, list of abstract."""
from abc import ABC
from dataclasses import dataclass
from typing import Annotated

from geneticengine.grammar.grammar import extract_grammar
from geneticengine.grammar.metahandlers.ints import IntRange
from geneticengine.grammar.metahandlers.lists import ListSizeBetween


class Root(ABC):
    pass


@dataclass
class Leaf(Root):
    x: Annotated[int, IntRange(0, 2)]


@dataclass
class Lst(Root):
    xs: Annotated[list[Leaf], ListSizeBetween(1, 2)]


@dataclass
class ALst(Root):
    ys: Annotated[list[Root], ListSizeBetween(0, 2)]


CLASSES = [Leaf, Lst, ALst]
START = Root


def grammar(**kw):
    return extract_grammar(list(CLASSES), START, **kw)


def grammar_lst(**kw):
    """Leaf and Lst only (no recursion through ALst): small enough for two-parent obligations"""
    return extract_grammar([Leaf, Lst], START, **kw)
