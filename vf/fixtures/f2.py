"""F2 lists: sized list of concrete, bare list, list of abstract."""
from abc import ABC
from dataclasses import dataclass
from typing import Annotated

from geneticengine.grammar.grammar import extract_grammar
from geneticengine.grammar.metahandlers.ints import IntRange
from geneticengine.grammar.metahandlers.lists import ListSizeBetween


class Root(ABC):
    pass


@dataclass
class Leaf(Root):
    x: Annotated[int, IntRange(0, 2)]


@dataclass
class Lst(Root):
    xs: Annotated[list[Leaf], ListSizeBetween(1, 2)]


@dataclass
class ALst(Root):
    ys: Annotated[list[Root], ListSizeBetween(0, 2)]


CLASSES = [Leaf, Lst, ALst]
START = Root


def grammar(**kw):
    return extract_grammar(list(CLASSES), START, **kw)


def grammar_lst(**kw):
    """Leaf and Lst only (no recursion through ALst): small enough for two-parent obligations"""
    return extract_grammar([Leaf, Lst], START, **kw)


@dataclass
class Blk(Root):
    xs: Annotated[list[Leaf], ListSizeBetween(1, 2)]
    r: Root


@dataclass
class TBlk(Root):
    t: tuple[Leaf, Leaf]
    r: Root


def grammar_blk(**kw):
    """a container-typed field FOLLOWED by a node-typed field (sized list, then tuple)"""
    return extract_grammar([Leaf, Blk, TBlk], START, **kw)


class _Blk:
    CLASSES = [Leaf, Blk, TBlk]
    START = Root


VARIANTS = {"grammar_blk": _Blk}
