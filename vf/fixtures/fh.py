"""FH: grammar whose classes have a harness-controlled hash (metaclass), so that the REAL built-in
sets / dicts inside the repository iterate in an order the harness chooses: the stand-in for
'another process' (class hashes are addresses and differ between processes)."""
from abc import ABC, ABCMeta
from dataclasses import dataclass
from typing import Annotated

from geneticengine.grammar.grammar import extract_grammar
from geneticengine.grammar.metahandlers.ints import IntRange


class HashMeta(ABCMeta):
    def __hash__(cls):
        return cls.__dict__.get("_vhash", 1000)

    def __eq__(cls, other):
        return cls is other


class Expr(ABC, metaclass=HashMeta):
    pass


@dataclass
class Leaf(Expr):
    x: Annotated[int, IntRange(0, 1)]


@dataclass
class Neg(Expr):
    e: Expr


@dataclass
class Two(Expr):
    a: Leaf
    b: Leaf


CLASSES = [Leaf, Neg, Two]
ALL = [Expr, Leaf, Neg, Two]
START = Expr


def set_hashes(perm):
    """perm: a permutation of range(len(ALL)); class ALL[i] gets hash perm[i]"""
    for c, h in zip(ALL, perm):
        type.__setattr__(c, "_vhash", int(h))


def grammar(**kw):
    return extract_grammar(list(CLASSES), START, **kw)
