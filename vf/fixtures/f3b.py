"""F3b bare base types: int, float, bool, str fields without refinements."""
from abc import ABC
from dataclasses import dataclass

from geneticengine.grammar.grammar import extract_grammar


class Root(ABC):
    pass


@dataclass
class BI(Root):
    i: int


@dataclass
class BFB(Root):
    f: float
    b: bool


@dataclass
class BS(Root):
    s: str


CLASSES = [BI, BFB, BS]
START = Root


def grammar(**kw):
    return extract_grammar(list(CLASSES), START, **kw)


def g_BI(**kw):
    return extract_grammar([BI], START, **kw)


def g_BFB(**kw):
    return extract_grammar([BFB], START, **kw)


def g_BS(**kw):
    return extract_grammar([BS], START, **kw)
