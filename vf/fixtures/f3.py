"""F3 base types, tuple and unions (of unequal minimum depth)."""
from abc import ABC
from dataclasses import dataclass
from typing import Annotated, Union

from geneticengine.grammar.grammar import extract_grammar
from geneticengine.grammar.metahandlers.ints import IntRange


class Root(ABC):
    pass


@dataclass
class Leaf(Root):
    x: Annotated[int, IntRange(0, 1)]


@dataclass
class Deep(Root):
    inner: Leaf


@dataclass
class Base(Root):
    i: int
    f: float
    b: bool


@dataclass
class Pair(Root):
    t: tuple[Leaf, Leaf]


@dataclass
class U(Root):
    u: Union[Leaf, Deep]


CLASSES = [Leaf, Deep, Base, Pair, U]
START = Root


def grammar(**kw):
    return extract_grammar(list(CLASSES), START, **kw)
