"""F15: a scope (list of declaration NODES) threaded through nested blocks by a dependent
refinement: the enclosing block's scope is extended (`scope + [decl]`) and injected in the body
through initial_values - the construction of tests/representations/dependent_types_context_test.py
with grammar-class instances inside the threaded list, so the list is a labelled container whose
size / depth metadata matters."""
from abc import ABC
from dataclasses import dataclass
from typing import Annotated, Any

from geneticengine.grammar.grammar import extract_grammar
from geneticengine.grammar.metahandlers.base import MetaHandlerGenerator
from geneticengine.grammar.metahandlers.dependent import Dependent
from geneticengine.grammar.metahandlers.ints import IntRange
from geneticengine.grammar.metahandlers.vars import VarRange
from geneticengine.solutions.tree import GengyList


class EmptyScope(MetaHandlerGenerator):
    def generate(self, random, grammar, base_type, rec, dependent_values: dict[str, Any]):
        return GengyList(Decl, [])

    def validate(self, v) -> bool:
        return True


class InScope(MetaHandlerGenerator):
    def __init__(self, scope):
        self.scope = scope

    def generate(self, random, grammar, base_type, rec, dependent_values: dict[str, Any]):
        return rec(base_type, initial_values={"scope": self.scope})

    def validate(self, v) -> bool:
        return True


@dataclass
class Decl:
    name: Annotated[str, VarRange(["x", "y"])]


class Stmt(ABC):
    pass


@dataclass
class Use(Stmt):
    scope: Annotated[list[Decl], EmptyScope()]
    pick: Annotated[int, IntRange(0, 1)]


@dataclass
class Block(Stmt):
    scope: Annotated[list[Decl], EmptyScope()]
    decl: Decl
    body: Annotated[Stmt, Dependent("scope,decl", lambda scope, decl: InScope(scope + [decl]))]


CLASSES = [Use, Block, Decl]
START = Stmt


def grammar(**kw):
    return extract_grammar(list(CLASSES), START, **kw)
