"""F0 minimal recursive grammar (one terminal, one unary production): operator obligations on
structured genotypes, whose crossover forks 2^|keys| ways."""
from abc import ABC
from dataclasses import dataclass
from typing import Annotated

from geneticengine.grammar.grammar import extract_grammar
from geneticengine.grammar.metahandlers.ints import IntRange


class Expr(ABC):
    pass


@dataclass
class Leaf(Expr):
    x: Annotated[int, IntRange(0, 1)]


@dataclass
class Neg(Expr):
    e: Expr


CLASSES = [Leaf, Neg]
START = Expr


def grammar(**kw):
    return extract_grammar(list(CLASSES), START, **kw)
