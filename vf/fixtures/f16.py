"""F16: a production supplied WITHOUT its intermediate abstract parent: Expr <- BinOp (abstract,
not listed, not named by any field) <- Add / Sub.  The library reaches Add and Sub through the start
symbol (they are subclasses of it) and registers BinOp as their parent."""
from abc import ABC
from dataclasses import dataclass
from typing import Annotated

from geneticengine.grammar.decorators import abstract
from geneticengine.grammar.grammar import extract_grammar
from geneticengine.grammar.metahandlers.ints import IntRange


class Expr(ABC):
    pass


@abstract
class BinOp(Expr):
    pass


@dataclass
class Lit(Expr):
    v: Annotated[int, IntRange(0, 1)]


@dataclass
class Add(BinOp):
    left: Expr
    right: Expr


@dataclass
class Neg(BinOp):
    e: Expr


CLASSES = [Lit, Add, Neg]
START = Expr


def grammar(**kw):
    return extract_grammar(list(CLASSES), START, **kw)


def grammar_neg(**kw):
    return extract_grammar([Lit, Neg], START, **kw)


class _Neg:
    """the sub-grammar as a fixture object of its own"""

    CLASSES = [Lit, Neg]
    START = Expr
    __name__ = "vf.fixtures.f16:grammar_neg"


VARIANTS = {"grammar_neg": _Neg}
