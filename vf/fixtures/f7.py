"""F7 recursion through containers: tuple, list, union, annotated; mutual recursion."""
from abc import ABC
from dataclasses import dataclass
from typing import Annotated, Union

from geneticengine.grammar.grammar import extract_grammar
from geneticengine.grammar.metahandlers.ints import IntRange
from geneticengine.grammar.metahandlers.lists import ListSizeBetween


class Root(ABC):
    pass


@dataclass
class Leaf(Root):
    x: Annotated[int, IntRange(0, 1)]


@dataclass
class ViaTuple(Root):
    t: tuple[Root, Leaf]


@dataclass
class ViaTuple2(Root):
    t: tuple[Leaf, Root]


@dataclass
class ViaUnion(Root):
    u: Union[Leaf, "ViaUnion"]


@dataclass
class ViaList(Root):
    xs: Annotated[list[Root], ListSizeBetween(1, 1)]


class Other(ABC):
    pass


@dataclass
class Ping(Root):
    o: Other


@dataclass
class Pong(Other):
    r: Root


@dataclass
class Stop(Other):
    x: Annotated[int, IntRange(0, 1)]


def grammar_tuple(**kw):
    return extract_grammar([Leaf, ViaTuple], Root, **kw)


def grammar_tuple2(**kw):
    return extract_grammar([Leaf, ViaTuple2], Root, **kw)


def grammar_union(**kw):
    return extract_grammar([Leaf, ViaUnion], Root, **kw)


def grammar_list(**kw):
    return extract_grammar([Leaf, ViaList], Root, **kw)


def grammar_mutual(**kw):
    return extract_grammar([Leaf, Ping, Pong, Stop], Root, **kw)


class _V:
    def __init__(self, classes):
        self.CLASSES = classes
        self.START = Root


VARIANTS = {
    "grammar_tuple": _V([Leaf, ViaTuple]),
    "grammar_tuple2": _V([Leaf, ViaTuple2]),
    "grammar_union": _V([Leaf, ViaUnion]),
    "grammar_list": _V([Leaf, ViaList]),
    "grammar_mutual": _V([Leaf, Ping, Pong, Stop]),
}
CLASSES = [Leaf, ViaTuple, ViaUnion, ViaList, Ping, Pong, Stop]
START = Root


def grammar(**kw):
    return extract_grammar(list(CLASSES), START, **kw)
