"""F13: a recursive production that is at least two levels deeper than the minimum of its own
symbol (it carries a payload of another, deeper abstract type): If(cond: Cond, then: Expr)."""
from abc import ABC
from dataclasses import dataclass
from typing import Annotated

from geneticengine.grammar.grammar import extract_grammar
from geneticengine.grammar.metahandlers.ints import IntRange


class Expr(ABC):
    pass


class Cond(ABC):
    pass


@dataclass
class Lit(Expr):
    v: Annotated[int, IntRange(0, 0)]


@dataclass
class Lt(Cond):
    l: Expr
    r: Expr


@dataclass
class If(Expr):
    cond: Cond
    then: Expr


CLASSES = [Lit, Lt, If]
START = Expr


def grammar(**kw):
    return extract_grammar(list(CLASSES), START, **kw)
