"""F14 assorted declaration forms seen in the repository's own tests and examples: a union of two
refined base types, a list of lists, a non-dataclass production with an annotated __init__ that
takes arguments, a tuple holding a list, a refined list of an abstract type."""
from abc import ABC
from dataclasses import dataclass
from typing import Annotated, Union

from geneticengine.grammar.grammar import extract_grammar
from geneticengine.grammar.metahandlers.ints import IntRange
from geneticengine.grammar.metahandlers.lists import ListSizeBetween


class Root(ABC):
    pass


@dataclass
class Leaf(Root):
    x: Annotated[int, IntRange(0, 1)]


@dataclass
class UI(Root):
    v: Union[Annotated[int, IntRange(0, 1)], Annotated[int, IntRange(7, 8)]]


@dataclass
class LL(Root):
    rows: Annotated[list[Annotated[list[Leaf], ListSizeBetween(1, 1)]], ListSizeBetween(1, 2)]


class ND(Root):
    """not a dataclass: annotated constructor with arguments"""

    def __init__(self, a: Annotated[int, IntRange(2, 3)], inner: Leaf):
        self.a = a
        self.inner = inner

    def __repr__(self):
        return f"ND({self.a}, {self.inner})"


@dataclass
class TL(Root):
    t: tuple[Leaf, Annotated[list[Leaf], ListSizeBetween(1, 1)]]


CLASSES = [Leaf, UI, LL, ND, TL]
START = Root


def grammar(**kw):
    return extract_grammar(list(CLASSES), START, **kw)


def sub(*classes):
    def g(**kw):
        return extract_grammar(list(classes), START, **kw)

    return g


g_UI, g_LL, g_ND, g_TL = sub(UI), sub(LL, Leaf), sub(ND, Leaf), sub(TL, Leaf)
