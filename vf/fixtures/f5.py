"""F5 refinements."""
from abc import ABC
from dataclasses import dataclass
from typing import Annotated

import numpy as np

from geneticengine.grammar.grammar import extract_grammar
from geneticengine.grammar.metahandlers.dependent import Dependent
from geneticengine.grammar.metahandlers.floats import FloatList, FloatRange
from geneticengine.grammar.metahandlers.ints import IntervalRange, IntList, IntRange
from geneticengine.grammar.metahandlers.lists import ListSizeBetween
from geneticengine.grammar.metahandlers.strings import StringSizeBetween, WeightedStringHandler
from geneticengine.grammar.metahandlers.vars import VarRange


class Root(ABC):
    pass


@dataclass
class RI(Root):
    a: Annotated[int, IntRange(-2, 2)]
    same: Annotated[int, IntRange(4, 4)]
    il: Annotated[int, IntList([5, -1, 9])]


@dataclass
class RF(Root):
    f: Annotated[float, FloatRange(-1.5, 2.5)]
    fl: Annotated[float, FloatList([0.25, 1.5])]


@dataclass
class RS(Root):
    name: Annotated[str, VarRange(["x", "y"])]
    s1: Annotated[str, StringSizeBetween(0, 2, "a")]
    s2: Annotated[str, StringSizeBetween(1, 2, "ab")]


MATRIX = np.array([[0.5, 0.5, 0.0], [0.0, 1.0, 0.0]])


@dataclass
class RW(Root):
    w: Annotated[str, WeightedStringHandler(MATRIX, ["A", "C", "G"])]


@dataclass
class RV(Root):
    iv: Annotated[tuple[int, int], IntervalRange(1, 3, 6)]


@dataclass
class RD(Root):
    lo: Annotated[int, IntRange(0, 2)]
    hi: Annotated[int, Dependent("lo", lambda lo: IntRange(lo, lo + 2))]


@dataclass
class RL(Root):
    xs: Annotated[list[RI], ListSizeBetween(1, 2)]


CLASSES = [RI, RF, RS, RW, RV, RD, RL]
START = Root


def grammar(**kw):
    return extract_grammar(list(CLASSES), START, **kw)


def sub(*classes):
    def g(**kw):
        return extract_grammar(list(classes), START, **kw)

    return g


g_RI, g_RF, g_RS, g_RW, g_RV, g_RD, g_RL = sub(RI), sub(RF), sub(RS), sub(RW), sub(RV), sub(RD), sub(RL, RI)


@dataclass
class Pt:
    lo: Annotated[int, IntRange(5, 6)]


@dataclass
class RD2(Root):
    """a dependent refinement whose dependency name also occurs inside a nested production placed
    between the dependency and the dependent field"""

    lo: Annotated[int, IntRange(0, 2)]
    origin: Pt
    hi: Annotated[int, Dependent("lo", lambda lo: IntRange(lo, lo + 1))]


g_RD2 = sub(RD2)
