"""F5ctx: the Let/Var/Literal context grammar (same construction as
tests/representations/dependent_types_context_test.py, two-letter name alphabet): `Var` draws
its name from the names bound so far; at the top level the context is empty, VarRange([]) raises
SynthesisException and create_node has to backtrack to another production."""
from abc import ABC
from dataclasses import dataclass
from typing import Annotated, Any

from geneticengine.grammar.grammar import extract_grammar
from geneticengine.grammar.metahandlers.base import MetaHandlerGenerator
from geneticengine.grammar.metahandlers.dependent import Dependent
from geneticengine.grammar.metahandlers.ints import IntRange
from geneticengine.grammar.metahandlers.vars import VarRange
from geneticengine.solutions.tree import GengyList


class AnyContext(MetaHandlerGenerator):
    def generate(self, random, grammar, base_type, rec, dependent_values: dict[str, Any]):
        return GengyList(str, [])

    def validate(self, v) -> bool:
        return True


class ContextMH(MetaHandlerGenerator):
    def __init__(self, ctx):
        self.ctx = ctx

    def generate(self, random, grammar, base_type, rec, dependent_values: dict[str, Any]):
        return rec(base_type, initial_values={"ctx": self.ctx})

    def validate(self, v) -> bool:
        return True


class Expr(ABC):
    pass


@dataclass
class Literal(Expr):
    v: Annotated[int, IntRange(0, 1)]


@dataclass
class Let(Expr):
    ctx: Annotated[list[str], AnyContext()]
    name: Annotated[str, VarRange(["a", "b"])]
    body: Annotated[Expr, Dependent("ctx,name", lambda ctx, name: ContextMH(ctx + [name]))]


@dataclass
class Var(Expr):
    ctx: Annotated[list[str], AnyContext()]
    name: Annotated[str, Dependent("ctx", lambda ctx: VarRange(ctx))]


CLASSES = [Let, Var, Literal]
START = Expr


def grammar(**kw):
    return extract_grammar(list(CLASSES), START, **kw)


def typecheck(ctx, e) -> bool:
    if isinstance(e, Literal):
        return True
    if isinstance(e, Let):
        return typecheck(list(ctx) + [e.name], e.body)
    if isinstance(e, Var):
        return e.name in ctx
    return False
