"""F11: the start symbol is itself a concrete, recursive production (no abstract root): the only
shape for which tree crossover finds donor subtrees at all in this code base (the type index is
keyed by concrete classes).  One recursive position keeps the shape count small."""
from dataclasses import dataclass
from typing import Annotated, Union

from geneticengine.grammar.grammar import extract_grammar
from geneticengine.grammar.metahandlers.ints import IntRange


@dataclass
class Leaf:
    v: Annotated[int, IntRange(0, 1)]


@dataclass
class Chain:
    nxt: Union["Chain", Leaf]


CLASSES = [Chain, Leaf]
START = Chain


def grammar(**kw):
    return extract_grammar([Leaf], Chain, **kw)
