"""F2b: bare (unrefined) list[T] field and nested production."""
from abc import ABC
from dataclasses import dataclass
from typing import Annotated

from geneticengine.grammar.grammar import extract_grammar
from geneticengine.grammar.metahandlers.ints import IntRange


class Root(ABC):
    pass


@dataclass
class Leaf(Root):
    x: Annotated[int, IntRange(0, 1)]


@dataclass
class Bag(Root):
    items: list[Leaf]


CLASSES = [Leaf, Bag]
START = Root


def grammar(**kw):
    return extract_grammar(list(CLASSES), START, **kw)


class BagRoot(ABC):
    pass


@dataclass
class OnlyBag(BagRoot):
    items: list[Leaf]


class _BagOnly:
    CLASSES = [OnlyBag, Leaf]
    START = BagRoot


def grammar_bag_only(**kw):
    return extract_grammar([OnlyBag, Leaf], BagRoot, **kw)
