"""F8: productions that read different sets of base-type keys (dynamic structured GE keeps one
gene list per type it has read): none, int only, bool and int."""
from abc import ABC
from dataclasses import dataclass

from geneticengine.grammar.grammar import extract_grammar


class Root(ABC):
    pass


@dataclass
class P0(Root):
    pass


@dataclass
class P1(Root):
    i: int


@dataclass
class P3(Root):
    b: bool
    i: int


CLASSES = [P0, P1, P3]
START = Root


def grammar(**kw):
    return extract_grammar(list(CLASSES), START, **kw)


def grammar_p0_p3(**kw):
    return extract_grammar([P0, P3], START, **kw)
