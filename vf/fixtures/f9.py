"""F9: a union whose members include a standalone concrete class (not a production of any abstract
type) that is deeper than every registered production: Let(Union[Block, Lit])."""
from abc import ABC
from dataclasses import dataclass
from typing import Annotated, Union

from geneticengine.grammar.grammar import extract_grammar
from geneticengine.grammar.metahandlers.ints import IntRange


class Expr(ABC):
    pass


@dataclass
class Lit(Expr):
    v: Annotated[int, IntRange(0, 1)]


@dataclass
class Neg(Expr):
    e: Expr


@dataclass
class Unit:
    pass


@dataclass
class Seq:
    last: Unit


@dataclass
class Block:
    body: Seq


@dataclass
class Let(Expr):
    bound: Union[Block, Lit]


CLASSES = [Lit, Neg, Let, Block, Seq, Unit]
START = Expr


def grammar(**kw):
    return extract_grammar([Lit, Neg, Let], START, **kw)
