"""Discovery of the grammars shipped with the repository (examples/, tests/, geml/): every
`extract_grammar([A, B, ...], Start)` call whose arguments are resolvable module-level names is
found by parsing the source, the module is imported (modules needing data files or network are
skipped and listed) and the classes are resolved in its namespace.  Imported, not copied."""
from __future__ import annotations

import ast
import importlib.util
import os
import signal
import sys


class _Timeout(BaseException):
    pass


def _alarm(signum, frame):
    raise _Timeout()

REPO = os.path.realpath(os.environ.get("VERIF_REPO", "/repo"))
SKIP = ("vectorialgp_example", "performance_test")


def _calls(tree):
    for node in ast.walk(tree):
        if isinstance(node, ast.Call) and getattr(node.func, "id", getattr(node.func, "attr", None)) == "extract_grammar" and len(node.args) >= 2:
            yield node


def _resolve(node, ns):
    if isinstance(node, ast.Name):
        return ns[node.id]
    if isinstance(node, ast.List):
        return [_resolve(e, ns) for e in node.elts]
    if isinstance(node, ast.Attribute):
        return getattr(_resolve(node.value, ns), node.attr)
    raise KeyError(ast.dump(node)[:60])


def _uses_list_subclass_alias(classes):
    import typing

    def bad(t):
        o = typing.get_origin(t)
        if isinstance(o, type) and issubclass(o, list) and o is not list:
            return True
        return any(bad(a) for a in typing.get_args(t))

    for c in classes:
        try:
            hints = typing.get_type_hints(c.__init__, globalns=vars(sys.modules[c.__module__]), include_extras=True)
        except Exception:
            continue
        if any(bad(t) for n, t in hints.items() if n != "return"):
            return True
    return False


def discover(roots=("examples", "tests", "geml"), limit=None):
    found, skipped = [], []
    for root in roots:
        for dirpath, _, files in os.walk(os.path.join(REPO, root)):
            for fn in sorted(files):
                if not fn.endswith(".py") or any(s in fn for s in SKIP):
                    continue
                path = os.path.join(dirpath, fn)
                try:
                    src = open(path).read()
                    tree = ast.parse(src)
                except Exception:
                    continue
                calls = list(_calls(tree))
                if not calls:
                    continue
                rel = os.path.relpath(path, REPO)
                name = "shipped_" + rel[:-3].replace(os.sep, "_")
                try:
                    spec = importlib.util.spec_from_file_location(name, path)
                    mod = importlib.util.module_from_spec(spec)
                    sys.modules[name] = mod
                    old = os.getcwd()
                    os.chdir(REPO)
                    prev = signal.signal(signal.SIGALRM, _alarm)
                    signal.alarm(20)  # modules that run a search or load big data at import are skipped
                    try:
                        spec.loader.exec_module(mod)
                    finally:
                        signal.alarm(0)
                        signal.signal(signal.SIGALRM, prev)
                        os.chdir(old)
                except BaseException as e:  # noqa
                    skipped.append((rel, type(e).__name__ + ": " + str(e)[:80]))
                    continue
                for k, c in enumerate(calls):
                    try:
                        classes = _resolve(c.args[0], vars(mod))
                        start = _resolve(c.args[1], vars(mod))
                        if isinstance(classes, list) and all(isinstance(x, type) for x in classes) and isinstance(start, type):
                            if _uses_list_subclass_alias(classes + [start]):
                                # GengyList[T] as a field annotation is not a list type for the library
                                # (is_generic_list requires origin list; generation asserts on it)
                                skipped.append((f"{rel}#{k}", "field annotated with a list-subclass alias (GengyList[T]): not a supported field form"))
                                continue
                            found.append((f"{rel}#{k}", classes, start))
                    except Exception as e:
                        skipped.append((f"{rel}#{k}", "unresolvable: " + str(e)[:60]))
                if limit and len(found) >= limit:
                    return found, skipped
    return found, skipped
