"""F4 hierarchy: two abstract layers, @abstract decorator, non-dataclass production with an
annotated __init__, an unreachable class, self and mutual recursion."""
from abc import ABC
from dataclasses import dataclass
from typing import Annotated

from geneticengine.grammar.decorators import abstract
from geneticengine.grammar.grammar import extract_grammar
from geneticengine.grammar.metahandlers.ints import IntRange


class Stmt(ABC):
    pass


class Expr(ABC):
    pass


@abstract
class Num(Expr):
    pass


@dataclass
class Lit(Num):
    v: Annotated[int, IntRange(0, 1)]


class Zero(Num):
    def __init__(self):
        pass

    def __repr__(self):
        return "Zero()"

    def __eq__(self, o):
        return type(o) is Zero

    def __hash__(self):
        return 7


@dataclass
class Paren(Expr):
    s: Stmt


@dataclass
class Ret(Stmt):
    e: Expr


@dataclass
class Seq(Stmt):
    a: Stmt
    b: Stmt


class Unreachable(ABC):
    pass


@dataclass
class Orphan(Unreachable):
    z: Annotated[int, IntRange(0, 1)]


CLASSES = [Lit, Zero, Paren, Ret, Seq, Num]
ALL_CLASSES = CLASSES + [Orphan]
START = Stmt


def grammar(**kw):
    return extract_grammar(list(CLASSES), START, **kw)


def grammar_with_unreachable(**kw):
    return extract_grammar(list(ALL_CLASSES), START, **kw)
