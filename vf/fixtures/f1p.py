"""F1p: the arithmetic grammar written with POSTPONED annotations (`from __future__ import
annotations`): every typing.get_type_hints call re-evaluates the annotation strings and yields
fresh Annotated[...] objects (fresh metahandler instances that compare by identity)."""
from __future__ import annotations

from abc import ABC
from dataclasses import dataclass
from typing import Annotated

from geneticengine.grammar.grammar import extract_grammar
from geneticengine.grammar.metahandlers.ints import IntRange


class Expr(ABC):
    pass


@dataclass
class Leaf(Expr):
    x: Annotated[int, IntRange(3, 7)]


@dataclass
class Neg(Expr):
    e: Expr


@dataclass
class Plus(Expr):
    a: Expr
    b: Expr


CLASSES = [Leaf, Neg, Plus]
START = Expr


def grammar(**kw):
    return extract_grammar(list(CLASSES), START, **kw)
