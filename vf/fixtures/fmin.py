"""Fmin: one abstract type, one production with one refined int (fewest SGE keys)."""
from abc import ABC
from dataclasses import dataclass
from typing import Annotated

from geneticengine.grammar.grammar import extract_grammar
from geneticengine.grammar.metahandlers.ints import IntRange


class R(ABC):
    pass


@dataclass
class T(R):
    x: Annotated[int, IntRange(0, 1)]


CLASSES = [T]
START = R


def grammar(**kw):
    return extract_grammar(list(CLASSES), START, **kw)
