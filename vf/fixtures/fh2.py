"""FH2: like FH (harness-controlled class hashes) with two abstract symbols, so that containers
keyed by non-terminal (dynamic structured GE's gene lists, the stack mapper's stacks) have more than
one key and their iteration order can matter."""
import itertools
from abc import ABC
from dataclasses import dataclass
from typing import Annotated

from geneticengine.grammar.grammar import extract_grammar
from geneticengine.grammar.metahandlers.ints import IntRange as _IntRange

from vf.fixtures.fh import HashMeta


class IntRange(_IntRange):
    """refinement objects hash by address as well (and with them the Annotated types that carry
    them, which the grammar keeps in sets): harness-controlled like the classes"""

    _vhash = 2000

    def __hash__(self):
        return self._vhash

    def __eq__(self, other):
        return self is other


R1, R2, R3 = IntRange(0, 1), IntRange(0, 1), IntRange(0, 1)


class Expr(ABC, metaclass=HashMeta):
    pass


class Cond(ABC, metaclass=HashMeta):
    pass


@dataclass
class Leaf(Expr):
    x: Annotated[int, R1]


@dataclass
class If(Expr):
    c: Cond


@dataclass
class Yes(Cond):
    x: Annotated[int, R2]


@dataclass
class No(Cond):
    y: Annotated[int, R3]


CLASSES = [Leaf, If, Yes, No]
ALL = [Expr, Cond, Leaf, If, Yes, No]
START = Expr
RANGES = [R1, R2, R3]
IDENTITY = tuple(range(9))
# the reverse order; the two abstract symbols swapped; the refinements reversed / rotated
QUICK_PERMS = [(0, 1, 3, 2, 5, 4, 7, 8, 6), (1, 0, 2, 3, 4, 5, 6, 7, 8), (8, 7, 6, 5, 4, 3, 2, 1, 0)]
ALL_PERMS = QUICK_PERMS + list(itertools.permutations(range(9)))[1:: 362880 // 40]


def set_hashes(perm):
    for c, h in zip(ALL, perm[:6]):
        type.__setattr__(c, "_vhash", int(h))
    for r, h in zip(RANGES, perm[6:]):
        r._vhash = 100 + int(h)


def grammar(**kw):
    return extract_grammar(list(CLASSES), START, **kw)
