"""Runs all obligations of one property for one tier, replays counterexamples, applies the
known-findings file, writes evidence and prints the verdict lines.

exit 0: held on everything explored (possibly with KNOWN-FINDING / INCONCLUSIVE lines)
exit 1: VIOLATION property=<id> replay=<path>
exit 3: harness error (non-reproducing counterexample, vacuous twin, broken harness)
"""
from __future__ import annotations

import concurrent.futures as cf
import fnmatch
import importlib
import json
import os
import shutil
import subprocess
import sys
import time

VERIF = os.path.dirname(os.path.dirname(os.path.dirname(os.path.abspath(__file__))))
PY = os.path.join(VERIF, ".venv", "bin", "python")
KNOWN = os.path.join(VERIF, "known_findings.json")
# scratch runs (seeded changes tried in a worktree: VERIF_REPO + PYTHONPATH) write elsewhere
OUT = os.environ.get("VERIF_OUT", VERIF)
# CPU budgets in the property modules are the sizes measured on the reference run; every budget is
# multiplied by this head-room factor so that a slower or busier machine does not turn a
# dischargeable obligation into an INCONCLUSIVE one.
SCALE = float(os.environ.get("VERIF_TIMEOUT_SCALE", "2.5"))


def _ob_matches(name, f):
    """a listed finding names its obligations by one glob or a list of globs"""
    pats = f.get("obligations", "*")
    return any(fnmatch.fnmatch(name, p) for p in ([pats] if isinstance(pats, str) else pats))


def load_known(prop: str):
    if not os.path.exists(KNOWN):
        return []
    data = json.load(open(KNOWN))
    return [f for f in data.get("findings", []) if f.get("property") == prop]


def _run_spec(spec: dict, workdir: str, tag: str, hard_timeout: float) -> dict:
    path = os.path.join(workdir, tag + ".json")
    json.dump(spec, open(path, "w"))
    env = dict(os.environ)
    env["PYTHONPATH"] = VERIF + os.pathsep + env.get("PYTHONPATH", "")
    env["PYTHONDONTWRITEBYTECODE"] = "1"
    env.setdefault("PYTHONHASHSEED", "0")
    t0 = time.time()
    try:
        p = subprocess.run([PY, "-m", "vf.engine.runner", path], cwd=VERIF, env=env, capture_output=True, text=True, timeout=hard_timeout)
    except subprocess.TimeoutExpired:
        return {"verdict": "inconclusive", "message": f"hard wall-clock kill after {hard_timeout:.0f}s", "paths": 0, "choices": 0, "wall_s": round(time.time() - t0, 1), "killed": True}
    for line in reversed(p.stdout.splitlines()):
        if line.startswith("@@RESULT@@"):
            return json.loads(line[len("@@RESULT@@"):])
    return {"verdict": "harness_error", "message": "runner crashed: " + (p.stderr or p.stdout)[-1500:], "paths": 0, "choices": 0, "wall_s": round(time.time() - t0, 1)}


def run_obligation(prop: str, module: str, ob, known: list, workdir: str, seed: int) -> dict:
    import copy as _copy

    ob = _copy.copy(ob)
    ob.timeout = ob.timeout * SCALE
    base = {"module": module, "harness": ob.harness, "cfg": ob.cfg}
    res = {
        "name": ob.name, "harness": ob.harness, "cfg": ob.cfg, "expect": ob.expect, "status": None, "paths": 0, "choices": 0,
        "cpu_s": 0.0, "wall_s": 0.0, "replays": 0, "smoke_runs": 0, "known": [], "violation": None, "abandoned": {}, "lines": [], "rounds": 0,
    }
    t0 = time.time()
    if getattr(ob, "kind", "crosshair") == "smt":
        return run_smt_obligation(prop, module, ob, known, workdir, res, t0)
    open_known = {}
    for f in known:
        if f.get("status") == "open" and _ob_matches(ob.name, f):
            for sig in f.get("signatures", [f["signature"]] if "signature" in f else []):
                open_known[sig] = f

    # --- harness sanity: concrete random runs of the same harness (never a verdict by itself)
    if ob.smoke and ob.expect == "confirm":
        sm = _run_spec({**base, "mode": "smoke", "runs": ob.smoke, "seed": seed, "excluded": sorted(open_known)}, workdir, ob.name + ".smoke", 300)
        if "runs" not in sm:
            res.update(status="harness_error", message="smoke: " + sm.get("message", "?"))
            res["wall_s"] = round(time.time() - t0, 1)
            return res
        res["smoke_runs"] = sm["runs"]
        res["smoke"] = {k: sm.get(k) for k in ("runs", "failed", "abandoned", "reached", "known")}
        if sm.get("first_failure"):
            res["smoke_first_failure"] = sm["first_failure"]

    # --- reachability twin: must be refuted
    if ob.twin and ob.expect == "confirm":
        tw = _run_spec({**base, "mode": "twin", "timeout": min(ob.timeout, 60), "path_timeout": ob.path_timeout}, workdir, ob.name + ".twin", min(ob.timeout, 60) * 4 + 120)
        if tw.get("states") != ["POST_FAIL"] and tw.get("verdict") == "inconclusive":
            # the twin ran out of time before it reached the oracle (slow paths, loaded machine): that
            # shows nothing either way - once more with the obligation's own budget
            res["paths"] += tw.get("paths", 0)
            tw = _run_spec({**base, "mode": "twin", "timeout": ob.timeout, "path_timeout": ob.path_timeout}, workdir, ob.name + ".twin2", ob.timeout * 4 + 120)
        res["twin"] = tw.get("verdict") if tw.get("verdict") != "harness_error" else tw.get("message")
        res["paths"] += tw.get("paths", 0)
        if tw.get("states") != ["POST_FAIL"]:
            if tw.get("verdict") == "inconclusive":  # vacuity neither shown nor excluded: no verdict for this obligation
                res.update(status="inconclusive", message=f"reachability twin inconclusive ({tw.get('message', '')[:200]}): the obligation is not counted as discharged")
            else:
                res.update(status="harness_error", message=f"reachability twin not refuted ({tw.get('verdict')}: {tw.get('message', '')[:300]}): harness is vacuous or broken")
            res["wall_s"] = round(time.time() - t0, 1)
            return res

    # --- the deciding exploration, re-run with listed findings excluded until nothing new is found
    excluded: list[str] = []
    while True:
        res["rounds"] += 1
        r = _run_spec({**base, "mode": "sym", "timeout": ob.timeout, "path_timeout": ob.path_timeout, "excluded": excluded}, workdir, f"{ob.name}.sym{res['rounds']}", ob.timeout * 1.5 + 90)
        res["paths"] += r.get("paths", 0)
        res["choices"] += r.get("choices", 0)
        res["cpu_s"] += r.get("cpu_s", 0.0)
        for k, v in (r.get("abandoned") or {}).items():
            res["abandoned"][k] = res["abandoned"].get(k, 0) + v
        v = r.get("verdict")
        if v == "refuted":
            w = r["witness"]
            rp = _run_spec({**base, "mode": "replay", "script": w["script"], "excluded": excluded}, workdir, f"{ob.name}.replay{res['rounds']}", 300)
            res["replays"] += 1
            reproduced = rp.get("ok") is False and rp.get("clause") == w["clause"]
            ip = r.get("inproc_replay") or {}
            process_dependent = False
            if not reproduced and ip.get("ok") is False and ip.get("clause") == w["clause"]:
                # reproduces concretely in the process that found it but not in a fresh one: the
                # behaviour depends on per-process state (set iteration order over class objects)
                reproduced, process_dependent, rp = True, True, ip
            if not reproduced:
                res.update(status="harness_error", message=f"counterexample for clause {w['clause']} did not reproduce concretely: replay gave {rp.get('ok')}/{rp.get('clause')}", witness=w)
                break
            replay_doc = {"property": prop, "obligation": ob.name, "module": module, "harness": ob.harness, "cfg": ob.cfg, "clause": w["clause"], "detail": rp.get("detail"), "script": w["script"], "tags": w.get("tags"), "notes": rp.get("notes"), "excluded": list(excluded), "found_by": "solver (CrossHair/z3 path exploration)", "replayed": "concretely against /repo without CrossHair: reproduced" + (" in the finding process only (depends on per-process set iteration order)" if process_dependent else "")}
            if ob.expect == "refute":
                res.update(status="discharged", witness=replay_doc)
                break
            if w["clause"] in open_known and w["clause"] not in excluded:
                f = open_known[w["clause"]]
                res["known"].append({"id": f.get("id"), "signature": w["clause"], "what": f.get("what"), "witness": replay_doc})
                excluded.append(w["clause"])
                if getattr(ob, "stop_after_known", False):
                    res.update(status="discharged", known_hits={w["clause"]: "listed finding reproduced; not re-explored with it excluded (unbounded search space)"})
                    break
                if res["rounds"] > 12:
                    res.update(status="inconclusive", message="too many exclusion rounds")
                    break
                continue
            res.update(status="violation", violation=replay_doc)
            break
        if v == "refuted_post":
            # all-models obligation: the set reached over the exhausted path tree differs from the
            # oracle's; replay = concrete enumeration of every draw sequence against the real code
            en = _run_spec({**base, "mode": "enumerate"}, workdir, f"{ob.name}.enum", ob.timeout * 3 + 120)
            res["replays"] += en.get("runs", 0)
            post = r.get("post") or {}
            doc = {"property": prop, "obligation": ob.name, "module": module, "harness": ob.harness, "cfg": ob.cfg, "clause": post.get("clause"), "detail": post.get("detail"), "script": [], "found_by": "set reached over the exhausted symbolic path tree vs the oracle's enumerator", "replayed": f"concrete enumeration of all {en.get('runs')} draw sequences: " + json.dumps(en.get("post"))[:600]}
            confirmed = en.get("complete") and (en.get("post") or {}).get("ok") is False and (en.get("post") or {}).get("clause") == post.get("clause")
            if not confirmed:
                res.update(status="harness_error", message=f"all-models verdict {post.get('clause')} not confirmed by concrete enumeration: {json.dumps(en)[:400]}", witness=doc)
            elif post.get("clause") in open_known and post.get("clause") not in excluded:
                f = open_known[post["clause"]]
                res["known"].append({"id": f.get("id"), "signature": post["clause"], "what": f.get("what"), "witness": doc})
                res["status"] = "discharged"
                res["known_hits"] = {post["clause"]: 1}
            else:
                res.update(status="violation", violation=doc)
            break
        if v == "confirmed":
            if r.get("post"):
                res["post"] = {"ok": r["post"].get("ok"), "programs_reached": r["post"].get("collected"), "comparison": r["post"].get("detail")}
            if ob.expect == "refute":
                res.update(status="harness_error", message="witness query came back confirmed: the expected witness does not exist (vacuity guard failed)")
            else:
                res["status"] = "discharged"
                res["known_hits"] = r.get("known_hits", {})
            break
        if v == "nondeterministic":
            res.update(status="nondeterministic", message=r.get("message", "")[:500])
            break
        if v == "harness_error":
            res.update(status="harness_error", message=r.get("message", "")[:1500])
            break
        res.update(status="inconclusive", message=(r.get("message") or "")[:300] + f" after {r.get('paths', 0)} paths / {r.get('cpu_s', 0)}s cpu")
        break
    # an inconclusive exploration does not hide a failure that a concrete run of the same harness
    # already produced: it is a real input failing on the real code (reported as found by a
    # concrete run, not by the solver)
    if res.get("smoke_first_failure") and res["status"] in ("inconclusive", "nondeterministic"):
        ff = res["smoke_first_failure"]
        if ff.get("clause") not in open_known:
            rp = _run_spec({**base, "mode": "replay", "script": ff.get("trace", []), "excluded": sorted(open_known)}, workdir, f"{ob.name}.smokereplay", 300)
            res["replays"] += 1
            if rp.get("ok") is False and rp.get("clause") == ff.get("clause"):
                res.update(status="violation", violation={"property": prop, "obligation": ob.name, "module": module, "harness": ob.harness, "cfg": ob.cfg, "clause": ff.get("clause"), "detail": ff.get("detail"), "script": ff.get("trace", []), "notes": ff.get("notes"), "excluded": sorted(open_known), "found_by": "concrete random run of the harness (the symbolic exploration of this obligation was inconclusive: " + str(res.get("message", ""))[:120] + ")", "replayed": "concretely against /repo without CrossHair: reproduced"})
    # smoke failure that the exploration did not explain is a harness inconsistency
    if res.get("smoke_first_failure") and res["status"] == "discharged":
        ff = res["smoke_first_failure"]
        res.update(status="harness_error", message=f"concrete smoke run failed with clause {ff.get('clause')} but the symbolic exploration confirmed: harness inconsistency", witness=ff)
    res["wall_s"] = round(time.time() - t0, 1)
    res["cpu_s"] = round(res["cpu_s"], 1)
    return res


def run_smt_obligation(prop, module, ob, known, workdir, res, t0):
    """Engine B obligation: the harness builds z3 queries from the current source of a kernel and
    returns {verdict, queries, solver_s, model?, clause?}; sat models are replayed on the real
    function (smt_replay)."""
    base = {"module": module, "harness": ob.harness, "cfg": ob.cfg}
    open_known = {}
    for f in known:
        if f.get("status") == "open" and _ob_matches(ob.name, f):
            for sig in f.get("signatures", [f["signature"]] if "signature" in f else []):
                open_known[sig] = f
    r = _run_spec({**base, "mode": "smt"}, workdir, ob.name + ".smt", ob.timeout * 1.5 + 60)
    res["paths"] = r.get("queries", 0)
    res["choices"] = r.get("queries", 0)
    res["cpu_s"] = r.get("solver_s", 0.0)
    res["smt"] = {k: r.get(k) for k in ("queries", "unsat", "sat", "unknown", "solver_s", "validated", "encoded")}
    v = r.get("verdict")
    if v == "confirmed":
        res["status"] = "discharged"
    elif v == "refuted":
        rp = _run_spec({**base, "mode": "smt_replay", "model": r["model"]}, workdir, ob.name + ".smtreplay", 300)
        res["replays"] += 1
        doc = {"property": prop, "obligation": ob.name, "module": module, "harness": ob.harness, "cfg": ob.cfg, "clause": r.get("clause"), "model": r["model"], "detail": rp.get("detail"), "engine": "B (AST->z3)", "found_by": "z3 model of the negated property over the encoding of the current source", "replayed": "real function called with the model's values"}
        if rp.get("ok") is not False:
            res.update(status="harness_error", message=f"z3 model did not reproduce on the real function: {rp}", witness=doc)
        elif r.get("clause") in open_known:
            f = open_known[r["clause"]]
            res["known"].append({"id": f.get("id"), "signature": r["clause"], "what": f.get("what"), "witness": doc})
            res["status"] = "discharged" if r.get("only_known") else "inconclusive"
            res["message"] = "listed finding reproduced; obligation not re-explored with the finding excluded (engine B)"
        else:
            res.update(status="violation", violation=doc)
    elif v == "harness_error":
        res.update(status="harness_error", message=r.get("message", ""))
    else:
        res.update(status="inconclusive", message=r.get("message", "")[:300])
    res["wall_s"] = round(time.time() - t0, 1)
    return res


def run_property(prop: str, tier: str, seed: int = 0, jobs: int | None = None, only: str | None = None) -> int:
    from vf.engine import envstubs

    t0 = time.time()
    module = "vf.props." + prop.lower()
    envstubs.install()
    mod = importlib.import_module(module)
    obs = mod.obligations(tier)
    if only:
        obs = [o for o in obs if fnmatch.fnmatch(o.name, only)]
    names = [o.name for o in obs]
    assert len(set(names)) == len(names), "duplicate obligation names: " + str([n for n in names if names.count(n) > 1])
    known = load_known(prop)
    workdir = os.path.join(VERIF, ".work", f"{prop}-{os.getpid()}")
    os.makedirs(workdir, exist_ok=True)
    rdir = os.path.join(OUT, "replays", prop)
    if not only:  # a full run owns the property's replay directory: no stale counterexamples
        shutil.rmtree(rdir, ignore_errors=True)
    os.makedirs(rdir, exist_ok=True)
    jobs = jobs or int(os.environ.get("VERIF_JOBS", "0")) or min(16, os.cpu_count() or 4)
    results = []
    # longest first
    order = sorted(obs, key=lambda o: -o.timeout)
    with cf.ThreadPoolExecutor(max_workers=jobs) as ex:
        futs = {ex.submit(run_obligation, prop, module, o, known, workdir, seed): o for o in order}
        for fu in cf.as_completed(futs):
            r = fu.result()
            results.append(r)
            print(f"  [{r['status']:>14}] {r['name']}  paths={r['paths']} cpu={r['cpu_s']}s wall={r['wall_s']}s" + (f"  -- {r.get('message', '')[:160]}" if r["status"] not in ("discharged",) else ""), flush=True)
    results.sort(key=lambda r: names.index(r["name"]))
    shutil.rmtree(workdir, ignore_errors=True)

    violations, harness_errors, inconclusive, known_lines = [], [], [], []
    hit_ids = set()
    for r in results:
        for k in r["known"]:
            hit_ids.add(k["id"])
            path = os.path.join(rdir, f"{r['name']}.known.{k['id']}.json")
            json.dump(k["witness"], open(path, "w"), indent=1)
            known_lines.append(f"KNOWN-FINDING: property={prop} {k['id']} [{r['name']}: {k['signature']}] {k['what']} (replay={path})")
        if r["status"] == "violation":
            path = os.path.join(rdir, f"{r['name']}.json")
            r["violation"].setdefault("script", r["violation"].get("model"))
            json.dump(r["violation"], open(path, "w"), indent=1)
            violations.append((r, path))
        elif r["status"] == "harness_error":
            harness_errors.append(r)
        elif r["status"] in ("inconclusive", "nondeterministic"):
            inconclusive.append(r)
    seen = set()
    for line in known_lines:
        key = line.split(" [")[0]
        if key not in seen:  # one line per finding
            seen.add(key)
            print(line)
    for f in known:
        if f.get("status") == "open" and f.get("id") not in hit_ids and not only:
            if any(_ob_matches(n, f) for n in names):
                print(f"STALE-FINDING: property={prop} {f.get('id')} listed as open but not reproduced by this run ({tier} tier)")
    for r in inconclusive:
        print(f"INCONCLUSIVE obligation={r['name']} status={r['status']} {r.get('message', '')[:200]}")
    for r in harness_errors:
        print(f"HARNESS-ERROR obligation={r['name']} {r.get('message', '')[:600]}")
    for r, path in violations:
        print(f"VIOLATION property={prop} replay={path}")
        print(f"   obligation={r['name']} clause={r['violation']['clause']} detail={json.dumps(r['violation'].get('detail'))[:400]}")

    write_evidence(mod, prop, tier, seed, results, time.time() - t0, len(violations), only)
    n_dis = sum(1 for r in results if r["status"] == "discharged")
    print(f"{prop} {tier}: obligations={len(results)} discharged={n_dis} known-findings={len(hit_ids)} inconclusive={len(inconclusive)} harness-errors={len(harness_errors)} violations={len(violations)} wall={time.time() - t0:.0f}s")
    if violations:
        return 1
    if harness_errors:
        return 3
    return 0


def write_evidence(mod, prop, tier, seed, results, wall, nviol, only=None):
    from vf.engine import envstubs

    states = sum(r["paths"] for r in results)
    transitions = sum(r["choices"] for r in results)
    replays = sum(r["replays"] for r in results)
    smoke = sum(r["smoke_runs"] for r in results)
    samples = []
    for r in results:
        s = {"obligation": r["name"], "cfg": r["cfg"], "expect": r["expect"], "status": r["status"], "paths": r["paths"], "solver_decisions": r["choices"], "cpu_s": r["cpu_s"], "abandoned_by_bound": r["abandoned"], "exclusion_rounds": r["rounds"]}
        if r.get("known"):
            s["known_findings_reproduced"] = [k["id"] for k in r["known"]]
        if r.get("known_hits"):
            s["confirmed_apart_from_listed_findings"] = r["known_hits"]
        if r.get("witness") and r["expect"] == "refute":
            s["witness_script"] = r["witness"].get("script")
        if r.get("post"):
            s["all_models"] = r["post"]
        if r.get("smt"):
            s["engine_B"] = r["smt"]
        if r.get("message"):
            s["message"] = r["message"][:300]
        samples.append(s)
    ev = {
        "property_id": prop,
        "tier": tier,
        "seed": seed,
        "level": "model_checking",
        "coverage": {
            "states": max(states, 1) if results else 0,
            "transitions": max(transitions, 1) if results else 0,
            "traces_validated_against_impl": replays + smoke,
            "samples": samples,
            "obligations": len(results),
            "discharged": sum(1 for r in results if r["status"] == "discharged"),
            "discharged_clean": sum(1 for r in results if r["status"] == "discharged" and not r.get("known") and not r.get("known_hits")),
            "inconclusive": sum(1 for r in results if r["status"] in ("inconclusive", "nondeterministic")),
            "exhaustive": all(r["status"] == "discharged" for r in results) and bool(results),
            "explanation": "states = execution paths explored by CrossHair (each path = one equivalence class of inputs, all symbolic values left free); transitions = solver-decided branch points on those paths; an obligation is discharged when its path tree is exhausted (every feasible path satisfied the oracle) or, for witness queries, when the solver's model replayed concretely; traces_validated_against_impl = counterexample/witness replays plus concrete smoke runs of the same harness against the real code.",
            "replays": replays,
            "concrete_smoke_runs": smoke,
            "functions_encoded": getattr(mod, "FUNCTIONS", []),
            "solver_cpu_s": round(sum(r["cpu_s"] for r in results), 1),
            "engine": "CrossHair 0.0.110 (symbolic execution of the real /repo code, z3 backend) driven through its API; one subprocess per obligation",
            "filter": only,
        },
        "assumptions": list(envstubs.STUBS) + list(getattr(mod, "ASSUMPTIONS", [])),
        "wall_s": round(wall, 1),
        "violations": nviol,
    }
    os.makedirs(os.path.join(OUT, "evidence"), exist_ok=True)
    # a filtered run (--only) is a debugging aid: it must not overwrite the property's evidence
    fname = prop + ".json" if not only else prop + ".partial.json"
    json.dump(ev, open(os.path.join(OUT, "evidence", fname), "w"), indent=1)


def replay_file(path: str) -> int:
    doc = json.load(open(path))
    workdir = os.path.join(VERIF, ".work", f"replay-{os.getpid()}")
    os.makedirs(workdir, exist_ok=True)
    if str(doc.get("engine", "")).startswith("B"):
        rp = _run_spec({"module": doc["module"], "harness": doc["harness"], "cfg": doc["cfg"], "mode": "smt_replay", "model": doc["model"]}, workdir, "replay", 600)
    elif not doc.get("script") and "all" in str(doc.get("replayed", "")):
        en = _run_spec({"module": doc["module"], "harness": doc["harness"], "cfg": doc["cfg"], "mode": "enumerate"}, workdir, "replay", 3600)
        rp = {"ok": (en.get("post") or {}).get("ok"), "clause": (en.get("post") or {}).get("clause"), "detail": (en.get("post") or {}).get("detail"), "runs": en.get("runs")}
    else:
        rp = _run_spec({"module": doc["module"], "harness": doc["harness"], "cfg": doc["cfg"], "mode": "replay", "script": doc["script"], "excluded": doc.get("excluded", [])}, workdir, "replay", 600)
    shutil.rmtree(workdir, ignore_errors=True)
    print(json.dumps(rp, indent=1)[:4000])
    if rp.get("ok") is False:
        print(f"REPRODUCED property={doc['property']} obligation={doc['obligation']} clause={rp.get('clause')}")
        return 1
    print("NOT REPRODUCED")
    return 0
