"""Subprocess entry point: runs ONE obligation in one mode and prints one JSON line (last line).

usage: python -m vf.engine.runner <spec.json>
spec: {module, harness, cfg, mode: sym|twin|replay|smoke, timeout, path_timeout, excluded: [sig],
       script: [...], runs, seed, side}
"""
from __future__ import annotations

import collections
import json
import os
import sys
import time
import traceback

from vf.engine import envstubs

envstubs.install()

from vf.engine.sym import Ctx, FuelExhausted, OracleFailure, ReplayMismatch  # noqa: E402

REPO_DIR = os.path.realpath(os.environ.get("VERIF_REPO", "/repo"))


class _Run:
    harness = None
    cfg: dict = {}
    twin = False
    excluded: set = set()
    side = None
    paths = 0
    choices = 0
    abandoned = collections.Counter()
    known_hits: dict = {}
    witness = None
    samples: list = []
    draws = 0
    collected: list = []


RUN = _Run()


def _repo_frame(e: BaseException) -> str:
    tb = traceback.extract_tb(e.__traceback__)
    name = "?"
    for fr in tb:
        fn = os.path.realpath(fr.filename)
        if fn.startswith(REPO_DIR + os.sep):
            name = os.path.relpath(fn, REPO_DIR).replace(".py", "").replace(os.sep, ".") + "." + fr.name
    return name


def call_harness(ctx: Ctx):
    """returns (ok, clause, detail)"""
    from crosshair.util import NotDeterministic

    try:
        RUN.harness(ctx, RUN.cfg)
        return True, None, None
    except OracleFailure as f:
        return False, f.clause, f.detail
    except (NotDeterministic, ReplayMismatch, FuelExhausted):
        raise
    except Exception as e:  # an exception type the property does not allow, escaping the repo code
        return False, "exc:" + type(e).__name__ + "@" + _repo_frame(e), repr(e)[:300]


def _entry() -> bool:
    """
    post: _
    """
    from crosshair.core import deep_realize
    from crosshair.statespace import context_statespace
    from crosshair.tracers import NoTracing
    from crosshair.util import IgnoreAttempt

    ctx = Ctx("sym", fuel=RUN.cfg.get("fuel", 400))
    ctx.excluded = RUN.excluded
    try:
        ok, clause, detail = call_harness(ctx)
    except IgnoreAttempt:
        with NoTracing():
            RUN.paths += 1
            RUN.abandoned[ctx.abandon_reason or "ignored"] += 1
        raise
    nch = len(context_statespace().choices_made)
    if RUN.twin:
        with NoTracing():
            RUN.paths += 1
            RUN.choices += nch
        return ctx.reached_n == 0 and ok  # an oracle failure also proves the oracle was reached
    if ok:
        with NoTracing():
            RUN.paths += 1
            RUN.choices += nch
            RUN.draws += len(ctx.trace)
            if ctx.reached_n == 0:
                RUN.abandoned["oracle-not-reached"] += 1
            RUN.collected.extend(ctx.collected)
            for k, v in ctx.known_hits.items():
                RUN.known_hits[k] = RUN.known_hits.get(k, 0) + v
        return True
    # NOTE: nothing is realised on a path that is going to return True: realising a symbol adds a
    # decision node whose other branch ("d != v") must then be explored, which turns the
    # exploration into an enumeration of the symbol's whole domain.
    if clause in RUN.excluded:
        with NoTracing():
            RUN.paths += 1
            RUN.choices += nch
            RUN.known_hits[clause] = RUN.known_hits.get(clause, 0) + 1
        return True
    script = ctx.realized_trace()
    detail = deep_realize(detail)
    notes = deep_realize(ctx.notes)
    with NoTracing():
        RUN.paths += 1
        RUN.choices += nch
        RUN.witness = {"clause": clause, "detail": _jsonable(detail), "script": script, "tags": list(ctx.tags), "notes": _jsonable(notes)}
    return False


def _jsonable(x, depth=0):
    if isinstance(x, (str, int, float, bool)) or x is None:
        return x
    if depth > 6:
        return repr(x)[:200]
    if isinstance(x, dict):
        return {str(k): _jsonable(v, depth + 1) for k, v in x.items()}
    if isinstance(x, (list, tuple, set)):
        return [_jsonable(v, depth + 1) for v in x]
    return repr(x)[:300]


def run_sym(spec):
    import crosshair.core_and_libs  # noqa: F401  (registers library models and opcode patches)

    envstubs.install_crosshair_shims()
    from crosshair.core import analyze_function, run_checkables
    from crosshair.options import AnalysisKind, AnalysisOptionSet

    stats = collections.Counter()
    opts = AnalysisOptionSet(
        per_condition_timeout=float(spec.get("timeout", 60)),
        per_path_timeout=float(spec.get("path_timeout", 30)),
        max_uninteresting_iterations=0,
        report_all=True,
        analysis_kind=[AnalysisKind.PEP316],
        stats=stats,
    )
    t0 = time.process_time()
    msgs = run_checkables(analyze_function(_entry, opts))
    cpu = time.process_time() - t0
    states = [m.state.name for m in msgs]
    text = " | ".join(m.message[:400] for m in msgs)
    if "POST_FAIL" in states and RUN.witness is not None:
        verdict = "refuted"
    elif any("NotDeterministic" in m.message for m in msgs):
        verdict = "nondeterministic"
    elif states == ["CONFIRMED"]:
        verdict = "confirmed"
    elif "EXEC_ERR" in states or "POST_FAIL" in states or "POST_ERR" in states:
        verdict = "harness_error"
    else:
        verdict = "inconclusive"
    post = None
    if verdict == "confirmed" and hasattr(RUN, "post") and RUN.post is not None:
        # all-models obligations: compare the set collected over the exhausted path tree with the oracle
        ok, clause, detail = RUN.post(RUN.cfg, RUN.collected)
        post = {"ok": ok, "clause": clause, "detail": _jsonable(detail), "collected": len(RUN.collected)}
        if not ok:
            verdict = "refuted_post"
    inproc = None
    if verdict == "refuted":
        # concrete replay in this very process (tracer gone): the authoritative reproduction for code
        # whose behaviour depends on per-process set iteration order / object addresses
        RUN.twin = False
        inproc = run_concrete(spec, script=RUN.witness["script"])
    return {
        "verdict": verdict,
        "post": post,
        "inproc_replay": inproc,
        "states": states,
        "message": text,
        "paths": RUN.paths,
        "iterations": stats.get("num_paths", 0),
        "choices": RUN.choices,
        "draws": RUN.draws,
        "abandoned": dict(RUN.abandoned),
        "known_hits": RUN.known_hits,
        "witness": RUN.witness,
        "samples": RUN.samples,
        "cpu_s": round(cpu, 2),
    }


def run_concrete(spec, script=None, seed=0):
    ctx = Ctx("replay" if script is not None else "rand", script=script, seed=seed, fuel=RUN.cfg.get("fuel", 400))
    ctx.excluded = RUN.excluded
    try:
        ok, clause, detail = call_harness(ctx)
    except FuelExhausted as e:
        return {"ok": None, "clause": "abandoned:" + str(e), "trace": _jsonable(ctx.realized_trace())}
    except ReplayMismatch as e:
        return {"ok": None, "clause": "replay-mismatch:" + str(e)}
    return {
        "ok": ok,
        "clause": clause,
        "detail": _jsonable(detail),
        "reached": ctx.reached_n,
        "known_hits": dict(ctx.known_hits),
        "trace": _jsonable(ctx.realized_trace()),
        "notes": _jsonable(ctx.notes),
    }


def run_enumerate(spec):
    """concrete depth-first enumeration of ALL draw sequences (finite-choice harnesses only):
    the replay of an all-models verdict"""
    collected, runs, failures = [], 0, []
    stack = [[]]
    limit = spec.get("max_runs", 200000)
    while stack and runs < limit:
        prefix = stack.pop()
        ctx = Ctx("enum", script=prefix, fuel=RUN.cfg.get("fuel", 400))
        try:
            ok, clause, detail = call_harness(ctx)
        except FuelExhausted:
            ok, clause, detail = None, "abandoned", None
        runs += 1
        if ok is False:
            failures.append({"clause": clause, "detail": _jsonable(detail), "script": list(ctx.trace)})
        elif ok:
            collected.extend(ctx.collected)
        for pos in range(len(ctx.trace) - 1, len(prefix) - 1, -1):
            lo, hi = ctx.ranges[pos]
            for v in range(ctx.trace[pos] + 1, hi + 1):
                stack.append(list(ctx.trace[:pos]) + [v])
    out = {"runs": runs, "complete": not stack, "failures": failures[:3], "collected": len(collected)}
    if RUN.post is not None:
        ok, clause, detail = RUN.post(RUN.cfg, collected)
        out["post"] = {"ok": ok, "clause": clause, "detail": _jsonable(detail)}
    return out


def main():
    spec = json.load(open(sys.argv[1]))
    mod = __import__(spec["module"], fromlist=["HARNESSES"])
    if spec["mode"] in ("smt", "smt_replay"):
        t0 = time.time()
        fn = getattr(mod, "SMT" if spec["mode"] == "smt" else "SMT_REPLAY")[spec["harness"]]
        try:
            out = fn(spec.get("cfg", {})) if spec["mode"] == "smt" else fn(spec.get("cfg", {}), spec["model"])
        except Exception as e:
            out = {"verdict": "inconclusive", "message": "engine B: " + type(e).__name__ + ": " + str(e)[:300]}
        out["wall_s"] = round(time.time() - t0, 2)
        out["mode"] = spec["mode"]
        print("\n@@RESULT@@" + json.dumps(_jsonable(out)))
        return
    RUN.harness = mod.HARNESSES[spec["harness"]]
    RUN.post = getattr(mod, "POST", {}).get(spec["harness"])
    RUN.cfg = spec.get("cfg", {})
    RUN.excluded = set(spec.get("excluded", []))
    mode = spec["mode"]
    t0 = time.time()
    if mode in ("sym", "twin"):
        RUN.twin = mode == "twin"
        out = run_sym(spec)
    elif mode == "replay":
        out = run_concrete(spec, script=spec["script"])
    elif mode == "enumerate":
        out = run_enumerate(spec)
    elif mode == "smoke":
        runs = []
        for k in range(spec.get("runs", 20)):
            r = run_concrete(spec, seed=spec.get("seed", 0) * 1000 + k)
            runs.append(r)
        bad = [r for r in runs if r["ok"] is False and r["clause"] not in RUN.excluded]
        out = {
            "runs": len(runs),
            "failed": len(bad),
            "abandoned": sum(1 for r in runs if r["ok"] is None),
            "reached": sum(1 for r in runs if r.get("reached")),
            "first_failure": bad[0] if bad else None,
            "known": sorted({r["clause"] for r in runs if r["ok"] is False and r["clause"] in RUN.excluded}),
        }
    else:
        raise SystemExit("bad mode")
    out["wall_s"] = round(time.time() - t0, 2)
    out["mode"] = mode
    sys.stdout.flush()
    print("\n@@RESULT@@" + json.dumps(out))


if __name__ == "__main__":
    main()
