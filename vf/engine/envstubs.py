"""Environment stubs shared by every obligation (DESIGN.md section 1.2).

install() must run before the first import of geneticengine / geml:
  * logging strip: every `logger.<level>(...)` / `logging.<level>(...)` expression statement in
    geneticengine.* and geml.* is compiled as `pass` (formatting a symbolic Fitness makes CrossHair
    enumerate concrete values forever).  The modules are compiled from the *current* source
    files; .pyc caches are bypassed.
  * clock: monotonic_ns in evaluation.tracker / evaluation.recorder returns 0.
  * isinstance shim for runtime-checkable Protocols under CrossHair's isinstance patch.
"""
from __future__ import annotations

import ast
import importlib.abc
import importlib.machinery
import sys

_PREFIXES = ("geneticengine", "geml")
_INSTALLED = False
STUBS = [
    "logging stripped: logger.<level>(...) statements in geneticengine.*/geml.* compiled as pass (import hook, current source, no .pyc)",
    "clock: geneticengine.evaluation.tracker.monotonic_ns / recorder.monotonic_ns return 0 (time budgets outside the claim)",
    "isinstance(x, <runtime-checkable Protocol>) answered by the native isinstance under CrossHair (tool compatibility shim)",
]


class _Strip(ast.NodeTransformer):
    def visit_Expr(self, node):
        c = node.value
        if (
            isinstance(c, ast.Call)
            and isinstance(c.func, ast.Attribute)
            and isinstance(c.func.value, ast.Name)
            and c.func.value.id in ("logger", "logging")
            and c.func.attr in ("debug", "info", "warning", "error", "critical")
        ):
            return ast.copy_location(ast.Pass(), node)
        return node


class _Loader(importlib.machinery.SourceFileLoader):
    def source_to_code(self, data, path, *, _optimize=-1):
        tree = ast.parse(data, path)
        tree = ast.fix_missing_locations(_Strip().visit(tree))
        return compile(tree, path, "exec", dont_inherit=True, optimize=_optimize)

    def get_code(self, fullname):
        path = self.get_filename(fullname)
        return self.source_to_code(self.get_data(path), path)


class _Finder(importlib.abc.MetaPathFinder):
    def find_spec(self, name, path, target=None):
        if not any(name == p or name.startswith(p + ".") for p in _PREFIXES):
            return None
        spec = importlib.machinery.PathFinder.find_spec(name, path)
        if spec and isinstance(spec.loader, importlib.machinery.SourceFileLoader):
            spec.loader = _Loader(spec.loader.name, spec.loader.path)
        return spec


def install():
    global _INSTALLED
    if _INSTALLED:
        return
    assert not any(m == "geneticengine" or m.startswith("geneticengine.") for m in sys.modules), "install() too late"
    sys.dont_write_bytecode = True
    sys.meta_path.insert(0, _Finder())
    import geneticengine.evaluation.tracker as _t
    import geneticengine.evaluation.recorder as _r

    _t.monotonic_ns = lambda: 0
    _r.monotonic_ns = lambda: 0
    _INSTALLED = True


def install_crosshair_shims():
    import builtins

    from crosshair.core import _PATCH_REGISTRATIONS
    from crosshair.libimpl import builtinslib
    from crosshair.tracers import NoTracing

    _oi, _ci = builtins.isinstance, builtinslib._isinstance

    def shim(obj, types):
        with NoTracing():
            if _oi(types, type) and getattr(types, "_is_protocol", False):
                return _oi(obj, types)
        return _ci(obj, types)

    _PATCH_REGISTRATIONS[builtins.isinstance] = shim
