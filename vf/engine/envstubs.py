"""Environment stubs shared by every obligation (DESIGN.md section 1.2).

install() must run before the first import of geneticengine / geml:
  * logging strip: every `logger.<level>(...)` / `logging.<level>(...)` expression statement in
    geneticengine.* and geml.* is compiled as `pass` (formatting a symbolic Fitness makes CrossHair
    enumerate concrete values forever).  The modules are compiled from the *current* source
    files; .pyc caches are bypassed.
  * clock: monotonic_ns in evaluation.tracker / evaluation.recorder returns 0.
  * isinstance shim for runtime-checkable Protocols under CrossHair's isinstance patch.
"""
from __future__ import annotations

import ast
import importlib.abc
import importlib.machinery
import sys

_PREFIXES = ("geneticengine", "geml")
_INSTALLED = False
STUBS = [
    "logging stripped: logger.<level>(...) statements in geneticengine.*/geml.* compiled as pass (import hook, current source, no .pyc)",
    "clock: geneticengine.evaluation.tracker.monotonic_ns / recorder.monotonic_ns return 0 (time budgets outside the claim)",
    "isinstance(x, TreeNode) answered by the native isinstance under CrossHair (tool compatibility shim)",
    "typing alias __hash__ / __repr__ (Union/Annotated used as dict keys or sorted by their text) evaluated outside the CrossHair tracer (tool compatibility shim)",
    "lists of classes indexed by a symbolic integer fork per element (CrossHair's symbolic `type` values disabled; tool compatibility shim)",
    "grammar.utils.get_arguments runs outside the CrossHair tracer (same code, concrete class arguments only; performance)",
]


class _Strip(ast.NodeTransformer):
    def visit_Expr(self, node):
        c = node.value
        if (
            isinstance(c, ast.Call)
            and isinstance(c.func, ast.Attribute)
            and isinstance(c.func.value, ast.Name)
            and c.func.value.id in ("logger", "logging")
            and c.func.attr in ("debug", "info", "warning", "error", "critical")
        ):
            return ast.copy_location(ast.Pass(), node)
        return node


class _Loader(importlib.machinery.SourceFileLoader):
    def source_to_code(self, data, path, *, _optimize=-1):
        tree = ast.parse(data, path)
        tree = ast.fix_missing_locations(_Strip().visit(tree))
        return compile(tree, path, "exec", dont_inherit=True, optimize=_optimize)

    def get_code(self, fullname):
        path = self.get_filename(fullname)
        return self.source_to_code(self.get_data(path), path)


class _Finder(importlib.abc.MetaPathFinder):
    def find_spec(self, name, path, target=None):
        if not any(name == p or name.startswith(p + ".") for p in _PREFIXES):
            return None
        spec = importlib.machinery.PathFinder.find_spec(name, path)
        if spec and isinstance(spec.loader, importlib.machinery.SourceFileLoader):
            spec.loader = _Loader(spec.loader.name, spec.loader.path)
        return spec


def install():
    global _INSTALLED
    if _INSTALLED:
        return
    assert not any(m == "geneticengine" or m.startswith("geneticengine.") for m in sys.modules), "install() too late"
    sys.dont_write_bytecode = True
    sys.meta_path.insert(0, _Finder())
    import geneticengine.evaluation.tracker as _t
    import geneticengine.evaluation.recorder as _r

    _t.monotonic_ns = lambda: 0
    _r.monotonic_ns = lambda: 0
    _INSTALLED = True


def install_crosshair_shims():
    """(1) isinstance(x, TreeNode): CrossHair's isinstance patch calls issubclass, which raises
    TypeError for runtime-checkable protocols with data members; answer with the native isinstance.
    (2) run geneticengine.grammar.utils.get_arguments outside the tracer: the same code, on
    concrete class objects only (typing.get_type_hints is ~30% of the traced time otherwise)."""
    import builtins
    import functools
    import sys

    from crosshair.core import _PATCH_REGISTRATIONS
    from crosshair.libimpl import builtinslib
    from crosshair.tracers import NoTracing

    from geneticengine.solutions.tree import TreeNode

    _oi, _ci = builtins.isinstance, builtinslib._isinstance

    def shim(obj, types):
        if types is TreeNode:
            with NoTracing():
                return _oi(obj, types)
        return _ci(obj, types)

    _PATCH_REGISTRATIONS[builtins.isinstance] = shim

    # (3) typing aliases (Union[...], Annotated[...]) used as dict keys: their Python-level __hash__
    # calls hash() on classes, which CrossHair models symbolically ("__hash__ method should return
    # an integer"); hash them outside the tracer.
    import typing

    def _untraced_hash(cls):
        h = cls.__dict__.get("__hash__")
        if h is None or getattr(h, "_verif_untraced", False):
            return

        def __hash__(self, _h=h):
            with NoTracing():
                return _h(self)

        __hash__._verif_untraced = True
        cls.__hash__ = __hash__

    def _untraced_repr(cls):
        r = cls.__dict__.get("__repr__")
        if r is None or getattr(r, "_verif_untraced", False):
            return

        def __repr__(self, _r=r):
            with NoTracing():
                return _r(self)

        __repr__._verif_untraced = True
        cls.__repr__ = __repr__

    for cname in ("_GenericAlias", "_UnionGenericAlias", "_AnnotatedAlias", "_BaseGenericAlias"):
        c = getattr(typing, cname, None)
        if c is not None:
            _untraced_hash(c)
            # str(Annotated[T, <metahandler holding a lambda>]) contains an object address, which
            # CrossHair turns into a symbolic string ("__str__ returned non-string" inside sorted(key=str))
            _untraced_repr(c)

    # (4) a list / tuple of CLASSES indexed by a symbolic integer (random.choice over productions or
    # union members): CrossHair would build one symbolic `type` value; realising it later is
    # unsupported for classes whose only common base is `object` (the path ends UNKNOWN and the
    # whole obligation becomes inconclusive).  Classes are never promoted to symbolic types here, so
    # such a subscript forks into one path per element instead.
    from crosshair.libimpl.builtinslib import SymbolicType

    SymbolicType._smt_promote_literal = classmethod(lambda cls, val: None)

    import geneticengine.grammar.utils as U

    orig = U.get_arguments

    @functools.wraps(orig)
    def get_arguments_untraced(n):
        with NoTracing():
            return orig(n)

    for name, mod in list(sys.modules.items()):
        if mod is not None and (name == "geneticengine" or name.startswith("geneticengine.") or name.startswith("geml")):
            if getattr(mod, "get_arguments", None) is orig:
                setattr(mod, "get_arguments", get_arguments_untraced)
