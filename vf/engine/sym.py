"""Symbolic inputs: one Ctx per explored path.

mode 'sym'    : values are fresh z3-backed CrossHair integers (path-unique names) constrained
                directly in the path condition; the deciding mode.
mode 'replay' : values come from a recorded script (the solver's model), no CrossHair involved:
                this is how a counterexample is replayed against the real code.
mode 'rand'   : values from a seeded PRNG (harness smoke runs only; never a verdict).
"""
from __future__ import annotations

import random as _random
import sys
from typing import Any, Callable, Sequence

from geneticengine.random.sources import RandomSource


class OracleFailure(Exception):
    def __init__(self, clause: str, detail: Any = None):
        super().__init__(clause)
        self.clause = clause
        self.detail = detail


class ReplayMismatch(Exception):
    pass


class FuelExhausted(Exception):
    """Raised in replay/rand mode when a bound is hit (in sym mode the path is abandoned)."""


class Ctx:
    def __init__(self, mode: str, script: Sequence[int] | None = None, seed: int = 0, fuel: int = 400):
        self.mode = mode
        self.script = list(script or [])
        self.pos = 0
        self.rng = _random.Random(seed)
        self.fuel = fuel
        self.trace: list[Any] = []
        self.tags: list[str] = []
        self.reached_n = 0
        self.notes: dict[str, Any] = {}
        self.abandon_reason: str | None = None
        self.ranges: list = []  # enum mode: (lo, hi) of every draw
        self.collected: list = []  # all-models enumeration: realised items of this path
        self.excluded: set = set()  # signatures of open known findings (counted, not raised)
        self.known_hits: dict[str, int] = {}

    # ------------------------------------------------------------------ symbols
    def int(self, lo, hi, tag: str = "") -> int:
        if len(self.trace) >= self.fuel:
            self.abandon("fuel")
        if self.mode == "sym":
            import z3
            from crosshair.libimpl.builtinslib import SymbolicInt
            from crosshair.statespace import context_statespace
            from crosshair.tracers import NoTracing

            with NoTracing():
                sp = context_statespace()
                d = SymbolicInt("d" + sp.uniq())
                zlo = lo.var if hasattr(lo, "var") else z3.IntVal(int(lo))
                zhi = hi.var if hasattr(hi, "var") else z3.IntVal(int(hi))
                sp.add(z3.And(d.var >= zlo, d.var <= zhi))
            # an empty interval makes the path infeasible: detect it now rather than at the end
            self.trace.append(d)
            self.tags.append(tag)
            return d
        if self.mode == "enum":
            lo_, hi_ = int(lo), int(hi)
            if hi_ < lo_:
                raise FuelExhausted("empty-range")
            if hi_ - lo_ > 64:
                raise FuelExhausted("range-too-wide-for-enumeration")
            if self.pos < len(self.script):
                v = self.script[self.pos]
            else:
                v = lo_
            self.pos += 1
            self.ranges.append((lo_, hi_))
            self.trace.append(v)
            self.tags.append(tag)
            return v
        if self.mode == "replay":
            if self.pos >= len(self.script):
                raise ReplayMismatch(f"script exhausted at draw {self.pos} ({tag})")
            v = self.script[self.pos]
            self.pos += 1
            if not (lo <= v <= hi):
                raise ReplayMismatch(f"draw {self.pos - 1} = {v} outside [{lo}, {hi}] ({tag})")
        else:
            if hi - lo > 64 and self.rng.random() < 0.7:
                v = self.rng.choice([lo, lo + 1, hi, hi - 1, lo + self.rng.randint(0, 64), (lo + hi) // 2])
            else:
                v = self.rng.randint(lo, hi)
        self.trace.append(v)
        self.tags.append(tag)
        return v

    def cint(self, lo: int, hi: int, tag: str = "") -> int:
        """A symbolic integer realised immediately (one path per value): concrete downstream."""
        v = self.int(lo, hi, tag)
        if self.mode == "sym":
            from crosshair.core import realize

            v = realize(v)
        return v

    def bool(self, tag: str = "") -> bool:
        return self.cint(0, 1, tag) == 1

    def pick(self, options: Sequence[Any], tag: str = ""):
        return options[self.cint(0, len(options) - 1, tag)]

    def concrete(self, fn, *a, **kw):
        """Run symbol-free setup code (grammar extraction, fixture construction) outside the
        tracer: same result, much faster.  Must not be handed symbolic values."""
        if self.mode == "sym":
            from crosshair.tracers import NoTracing

            with NoTracing():
                return fn(*a, **kw)
        return fn(*a, **kw)

    # ------------------------------------------------------------------ control
    def abandon(self, reason: str):
        self.abandon_reason = reason
        if self.mode == "sym":
            from crosshair.util import IgnoreAttempt

            raise IgnoreAttempt(reason)
        raise FuelExhausted(reason)

    def reached(self, n: int = 1):
        self.reached_n += n

    def require(self, cond, clause: str, detail: Callable[[], Any] | Any = None):
        if not cond:
            if clause in self.excluded:
                # listed open finding: count it and keep checking the remaining clauses
                self.known_hits[clause] = self.known_hits.get(clause, 0) + 1
                return
            d = detail() if callable(detail) else detail
            raise OracleFailure(clause, d)

    def fail(self, clause: str, detail: Any = None):
        raise OracleFailure(clause, detail)

    def collect(self, item):
        """all-models enumeration: realise `item` (this forks the path over every value of the
        symbols it contains - intended) and remember it for the post-exploration comparison"""
        if self.mode == "sym":
            from crosshair.core import deep_realize

            item = deep_realize(item)
        self.collected.append(item)

    def note(self, k: str, v: Any):
        self.notes[k] = v

    def realized_trace(self) -> list[int]:
        if self.mode == "sym":
            from crosshair.core import realize

            return [int(realize(d)) for d in self.trace]
        return [int(d) for d in self.trace]


FLOAT_FRACTIONS = (0.0, 0.5, 1.0 - 2.0**-20)


class FreshRandom(RandomSource):
    """The repo's RandomSource over Ctx symbols.  Only randint / random_float (and normalvariate,
    whose Box-Muller body needs math.log/cos on floats) are supplied; choice, choice_weighted,
    shuffle, pop_random, random_bool are the repository's own code running on top."""

    def __init__(self, ctx: Ctx, name: str = "r", concrete: bool = False, coarse: bool = False):
        self.ctx = ctx
        self.name = name
        self.concrete = concrete  # realise every draw at once (code that crosses into C, e.g. numpy)
        self.coarse = coarse  # wide ranges (> 64 values): realise from {lo, lo+1, hi} only (stated bound)
        self.n_int = 0
        self.n_float = 0
        self.log: list[tuple] = []

    def randint(self, min, max):
        self.n_int += 1
        if getattr(self, "fixed", False):  # a fixed deterministic stream (the draws are not the subject)
            v = min + (self.n_int * 7) % (max - min + 1)
            self.log.append((min, max, v))
            return v
        if self.coarse and not hasattr(min, "var") and not hasattr(max, "var") and max - min > 64:
            v = min + 1 if getattr(self, "coarse_single", False) else self.ctx.pick([min, min + 1, max], self.name + ".randint(coarse)")
            self.log.append((min, max, v))
            return v
        v = (self.ctx.cint if self.concrete else self.ctx.int)(min, max, self.name + ".randint")
        self.log.append((min, max, v))
        return v

    def random_float(self, min, max):
        self.n_float += 1
        f = self.ctx.pick(FLOAT_FRACTIONS, self.name + ".random_float")
        return min + (max - min) * f

    def normalvariate(self, mean, sigma):
        self.n_float += 1
        f = self.ctx.pick((-1.0, 0.0, 2.5), self.name + ".normalvariate")
        return mean + sigma * f

    @property
    def draws(self):
        return self.n_int + self.n_float


class ScriptedRandom(RandomSource):
    """Plain concrete source fed from a list (used by some replays/demos)."""

    def __init__(self, ints, floats=()):
        self.ints = list(ints)
        self.floats = list(floats)

    def randint(self, min, max):
        v = self.ints.pop(0)
        assert min <= v <= max, (min, v, max)
        return v

    def random_float(self, min, max):
        return min + (max - min) * self.floats.pop(0)


class FuelList(list):
    """Gene list with a read budget: genotype-backed sources wrap around (index % len), so a
    mapping loop that no longer branches on symbols would never be interrupted by CrossHair."""

    def __init__(self, vals, ctx: Ctx, fuel: int, fail_clause: str | None = None):
        super().__init__(vals)
        self._ctx = ctx
        self._fuel = fuel
        self._fail_clause = fail_clause  # report exhaustion as an oracle failure instead of abandoning

    def __getitem__(self, i):
        if not isinstance(i, slice):
            self._fuel -= 1
            if self._fuel < 0:
                if self._fail_clause:
                    self._ctx.fail(self._fail_clause, {"genes": list(self)})
                self._ctx.abandon("gene-read-fuel")
        return super().__getitem__(i)


def sym_genes(ctx: Ctx, n: int, hi: int = sys.maxsize, tag: str = "gene") -> list:
    return [ctx.int(0, hi, tag) for _ in range(n)]


def same_value(a, b) -> bool:
    """True when a and b are the same object or the same solver term (no fork, no solver call):
    deepcopy of a symbolic gene yields a new proxy object around the same z3 term."""
    if a is b:
        return True
    va, vb = getattr(a, "var", None), getattr(b, "var", None)
    if va is not None and vb is not None:
        import z3
        from crosshair.tracers import NoTracing

        with NoTracing():
            return bool(z3.eq(va, vb))
    return False
