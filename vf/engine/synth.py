"""Shared harness plumbing for the synthesis properties (C01-C03, C06, C07, C09-C11)."""
from __future__ import annotations

import importlib

from geneticengine.exceptions import GeneticEngineError
from geneticengine.grammar.metahandlers.base import SynthesisException
from geneticengine.representations.grammatical_evolution import dynamic_structured_ge as DSGE
from geneticengine.representations.grammatical_evolution import ge as GE
from geneticengine.representations.grammatical_evolution import structured_ge as SGE
from geneticengine.representations import stackgggp as STACK
from geneticengine.representations.tree import initializations as INI
from geneticengine.representations.tree import treebased as TB

from vf.engine.sym import Ctx, FreshRandom, FuelList

LIBRARY_ERRORS = (GeneticEngineError, SynthesisException)
DECIDERS = {
    "grow": INI.MaxDepthDecider,
    "full": INI.FullDecider,
    "pi": INI.PositionIndependentGrowDecider,
    "pt": INI.ProgressivelyTerminalDecider,
}


def fixture(name: str):
    return importlib.import_module("vf.fixtures." + name)


_PRISTINE: dict = {}


def _restore_class_attributes(fx):
    """every path starts from the class declarations as they were when the fixture was imported:
    what one explored path (or a seeded defect) writes into the classes' __gengy__ dictionaries
    must not leak into the next path of the same process"""
    import sys as _sys

    mod = _sys.modules[fx.__name__] if hasattr(fx, "__name__") and fx.__name__ in _sys.modules else fx
    classes = [c for c in vars(mod).values() if isinstance(c, type) and getattr(c, "__module__", None) == getattr(mod, "__name__", None)]
    key = getattr(mod, "__name__", id(mod))
    if key not in _PRISTINE:
        _PRISTINE[key] = {c: dict(c.__dict__["__gengy__"]) if "__gengy__" in c.__dict__ else None for c in classes}
    for c, snap in _PRISTINE[key].items():
        if snap is None:
            if "__gengy__" in c.__dict__:
                try:
                    delattr(c, "__gengy__")
                except AttributeError:
                    pass
        else:
            d = c.__dict__.get("__gengy__")
            if d is None:
                setattr(c, "__gengy__", dict(snap))
            else:
                d.clear()
                d.update(snap)


def make_grammar(ctx: Ctx, cfg):
    if cfg["fixture"] == "family":  # generated hierarchy: fresh classes on every path
        from vf.fixtures import family

        fx = ctx.concrete(family.get, cfg["index"])
        kw = {"expansion_depthing": True} if cfg.get("expansion_depthing") else {}
        return fx, ctx.concrete(lambda: fx.grammar(**kw))
    fx = fixture(cfg["fixture"])
    fn = getattr(fx, cfg.get("grammar_fn", "grammar"))
    kw = {"expansion_depthing": True} if cfg.get("expansion_depthing") else {}

    def build():
        _restore_class_attributes(fx)
        return fn(**kw)

    return fx, ctx.concrete(build)


def make_decider(name: str, r, g, max_depth):
    if name == "pt":
        return INI.ProgressivelyTerminalDecider(r, g)
    return DECIDERS[name](r, g, max_depth)


def make_rep(cfg, g, r):
    """cfg: rep in tree|ge|sge|dsge|stack; decider; max_depth; gene_length"""
    rep = cfg["rep"]
    md = cfg.get("max_depth", 3)
    if rep == "tree":
        return TB.TreeBasedRepresentation(g, make_decider(cfg.get("decider", "grow"), r, g, md))
    if rep == "ge":
        return GE.GrammaticalEvolutionRepresentation(g, make_decider(cfg.get("decider", "grow"), r, g, md), gene_length=cfg.get("gene_length", 6))
    if rep == "sge":
        return SGE.StructuredGrammaticalEvolutionRepresentation(g, make_decider(cfg.get("decider", "grow"), r, g, md), gene_length=cfg.get("gene_length", 3))
    if rep == "dsge":
        return DSGE.DynamicStructuredGrammaticalEvolutionRepresentation(g, max_depth=md)
    if rep == "stack":
        return STACK.StackBasedGGGPRepresentation(g, gene_length=cfg.get("gene_length", 5), failures_limit=cfg.get("failures_limit", 2))
    raise KeyError(rep)


def registered_classes(fx) -> set:
    out = set(getattr(fx, "CLASSES"))
    # classes named only as field types are registered through their declaration
    from vf.oracles.grammar import Analysis

    try:
        out |= {c for c in Analysis(list(out), fx.START).classes if isinstance(c, type)}
    except Exception:
        pass
    return out


def fuel_genes(ctx: Ctx, cfg, genotype):
    """stack genotypes: bound the number of gene reads (the mapper wraps around its genome and has
    no iteration bound of its own)"""
    if cfg.get("rep") == "stack" and not isinstance(genotype.dna, FuelList):
        genotype.dna = FuelList(genotype.dna, ctx, cfg.get("gene_fuel", 12))
    return genotype


def pipeline(ctx: Ctx, cfg, check, on_error=None, fxg=None, r=None):
    """create -> map -> (mutate | crossover)* ; `check(ctx, fx, g, program, stage)` on every
    phenotype.  Library errors end the path quietly (creation may fail with the library's own
    error type) unless on_error is given."""
    fx, g = fxg if fxg is not None else make_grammar(ctx, cfg)
    r = r if r is not None else FreshRandom(ctx)
    try:
        rep = make_rep(cfg, g, r)
        g1 = fuel_genes(ctx, cfg, rep.create_genotype(r))
        p1 = rep.genotype_to_phenotype(g1)
    except LIBRARY_ERRORS as e:
        if on_error:
            on_error(ctx, fx, g, e, "create")
        return
    check(ctx, fx, g, p1, "create")
    cur = g1
    for k, op in enumerate(cfg.get("ops", [])):
        try:
            if op == "mutate":
                cur = fuel_genes(ctx, cfg, rep.mutate(r, cur))
                ph = [rep.genotype_to_phenotype(cur)]
            else:
                other = rep.create_genotype(r)
                c1, c2 = rep.crossover(r, cur, other)
                c1, c2 = fuel_genes(ctx, cfg, c1), fuel_genes(ctx, cfg, c2)
                ph = [rep.genotype_to_phenotype(c1), rep.genotype_to_phenotype(c2)]
                cur = c1
        except LIBRARY_ERRORS as e:
            if on_error:
                on_error(ctx, fx, g, e, f"{op}#{k}")
            return
        for p in ph:
            check(ctx, fx, g, p, f"{op}#{k}")
