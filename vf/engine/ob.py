from __future__ import annotations

from dataclasses import dataclass, field


@dataclass
class Ob:
    """One obligation = one harness x one configuration x one bound.

    expect 'confirm': the path tree must be exhausted with the oracle true on every path.
    expect 'refute' : a witness query (existence claim / vacuity guard): a counterexample to the
                      harness's negated claim must be found and must replay.
    """

    harness: str
    cfg: dict = field(default_factory=dict)
    name: str | None = None
    expect: str = "confirm"
    timeout: float = 90.0  # CrossHair per-condition CPU budget (s)
    path_timeout: float = 30.0
    twin: bool = True  # run the reachability twin
    smoke: int = 8  # concrete random smoke runs (harness sanity, not a verdict)
    functions: tuple = ()  # repo functions exercised (evidence)
    stop_after_known: bool = False  # do not re-explore with the listed finding excluded (unbounded searches)
    kind: str = "crosshair"  # 'crosshair' (engine A) | 'smt' (engine B: own AST->z3 encoding)

    def __post_init__(self):
        if self.name is None:
            self.name = self.harness
