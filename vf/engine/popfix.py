"""Population-level fixtures: a cheap representation whose programs are opaque tokens and a
fitness function whose values are symbolic (one selector per distinct program)."""
from __future__ import annotations

from geneticengine.representations.api import Representation, RepresentationWithCrossover, RepresentationWithMutation

from vf.engine.sym import Ctx


class Tok:
    """an opaque program"""

    __slots__ = ("k", "origin", "__weakref__")

    def __init__(self, k, origin):
        self.k = k
        self.origin = origin

    def __repr__(self):
        return f"Tok{self.k}"


class TokRep(Representation, RepresentationWithMutation, RepresentationWithCrossover):
    """create / mutate / crossover hand out fresh tokens (every one a new program) and record
    their provenance; the phenotype is the token itself"""

    def __init__(self, draws_per_op: int = 0):
        self.n = 0
        self.created = []
        self.draws_per_op = draws_per_op
        self.maps = 0

    def _new(self, origin):
        t = Tok(self.n, origin)
        self.n += 1
        self.created.append(t)
        return t

    def create_genotype(self, random, **kwargs):
        for _ in range(self.draws_per_op):
            random.randint(0, 1)
        return self._new(("create",))

    def genotype_to_phenotype(self, genotype):
        self.maps += 1
        return genotype

    def mutate(self, random, genotype, **kwargs):
        for _ in range(self.draws_per_op):
            random.randint(0, 1)
        return self._new(("mutate", genotype.k))

    def crossover(self, random, parent1, parent2, **kwargs):
        for _ in range(self.draws_per_op):
            random.randint(0, 1)
        return self._new(("cross", parent1.k, parent2.k)), self._new(("cross", parent2.k, parent1.k))


TABLE2 = [0.0, 1.0]
TABLE3 = [0.0, 1.0, 2.0]
TABLE4 = [-1.0, 0.0, 1.0, 2.5]
TABLE_INF = [float("-inf"), 0.0, float("inf")]  # infinitely bad / good fitness values are ordinary floats
TABLES = {2: TABLE2, 3: TABLE3, 4: TABLE4, "inf": TABLE_INF}


class SymFitness:
    """fitness(program): a function of the program (memoised per token), value = TABLE[selector]
    with one symbolic selector per distinct program; every invocation is logged.
    mode 'fork': the selector is realised (one path per value; all float arithmetic concrete).
    mode 'int' : the value is the symbolic integer selector itself (comparisons stay symbolic)."""

    def __init__(self, ctx: Ctx, table=TABLE3, mode="fork", components: int = 0):
        self.ctx = ctx
        self.table = table
        self.mode = mode
        self.components = components
        self.memo = {}
        self.log = []

    def value_of(self, tok):
        if tok.k not in self.memo:
            if self.components:
                self.memo[tok.k] = [self._one() for _ in range(self.components)]
            else:
                self.memo[tok.k] = self._one()
        return self.memo[tok.k]

    def _one(self):
        if self.mode == "int":
            return self.ctx.int(0, len(self.table) - 1, "fitness")
        return self.ctx.pick(self.table, "fitness")

    def __call__(self, tok):
        self.log.append(tok.k)
        v = self.value_of(tok)
        return list(v) if self.components else v
