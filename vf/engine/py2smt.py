"""Engine B: a small forking symbolic interpreter from the Python AST of selected numeric kernels
to z3 terms (mathematical Int / Real; float arithmetic as exact rationals, round() as
round-half-even).  The function body is read from the CURRENT source file on every run
(inspect.getsource); loops run over lists of concrete length; `if` on a symbolic condition forks
with feasibility pruning; calls to other geneticengine methods are inlined.  Anything outside the
supported subset raises Unsupported, which the caller reports as inconclusive (never as a pass).
"""
import ast, inspect, textwrap, z3, operator, itertools, fractions

class Unsupported(Exception): pass
class Ret(Exception):
    def __init__(self, v): self.v = v

def is_sym(v): return isinstance(v, z3.ExprRef)
def to_real(v):
    if is_sym(v): return z3.ToReal(v) if v.is_int() else v
    return z3.RealVal(fractions.Fraction(v))
def rhe(q):  # round-half-even of a Real term -> Int term
    f = z3.ToInt(q); fr = q - z3.ToReal(f)
    return z3.If(fr < z3.RealVal("1/2"), f, z3.If(fr > z3.RealVal("1/2"), f + 1, z3.If(f % 2 == 0, f, f + 1)))

class Interp:
    def __init__(self, solver_ctx=None):
        self.paths = []   # (path_cond list, result)
    def run_prefix(self, fn, args, self_obj, n_stmts):
        """interpret only the first n_stmts statements of fn's body; returns [(path_cond, env)]"""
        src = textwrap.dedent(inspect.getsource(fn)); tree = ast.parse(src).body[0]
        params = [a.arg for a in tree.args.args]
        env = dict(zip(params, [self_obj] + list(args)))
        env["__globals__"] = fn.__globals__
        outs = self.block(list(tree.body)[:n_stmts], env, [])
        return [(pc, x) for kind, pc, x in outs if kind == "fall"]

    def run(self, fn, args, self_obj=None):
        src = textwrap.dedent(inspect.getsource(fn)); tree = ast.parse(src).body[0]
        params = [a.arg for a in tree.args.args]
        env = dict(zip(params, ([self_obj] if self_obj is not None else []) + list(args)))
        env["__globals__"] = fn.__globals__
        defaults = tree.args.defaults  # bind parameters that were not passed to their defaults
        for a, dflt in zip(params[len(params) - len(defaults):], defaults):
            if a not in env:
                env[a] = self.ev(dflt, env)
        outs = self.block(list(tree.body), env, [])
        return [(pc, (x if kind == "ret" else None)) for kind, pc, x in outs]
    def feasible(self, pc):
        s = z3.Solver(); s.add(*pc); return str(s.check()) != "unsat"
    def block(self, stmts, env, pc):
        if not stmts: return [("fall", pc, env)]
        outs = []
        for kind, pc1, x in self.stmt(stmts[0], env, pc):
            if kind in ("ret", "cont", "brk"): outs.append((kind, pc1, x))
            else: outs.extend(self.block(stmts[1:], x, pc1))
        return outs
    def _copyenv(self, env):
        import copy
        return {k: (copy.copy(v) if isinstance(v, (list, dict)) and k != "__globals__" else v) for k, v in env.items()}
    def stmt(self, st, env, pc):
        if isinstance(st, ast.If):
            c = self.ev(st.test, env)
            if is_sym(c):
                outs = []
                for branch, cond in ((st.body, c), (st.orelse, z3.Not(c))):
                    if self.feasible(pc + [cond]):
                        outs.extend(self.block(list(branch), self._copyenv(env), pc + [cond]))
                return outs
            return self.block(list(st.body if c else st.orelse), env, pc)
        if isinstance(st, ast.For):
            states = [(pc, env)]; rets = []; done = []
            for x in list(self.ev(st.iter, env)):
                nxt = []
                for pc1, e1 in states:
                    self.assign(st.target, x, e1)
                    for kind, pc2, y in self.block(list(st.body), e1, pc1):
                        if kind == "ret": rets.append((kind, pc2, y))
                        elif kind == "brk": done.append((pc2, y))
                        else: nxt.append((pc2, y))   # fall / continue
                states = nxt
            return rets + [("fall", p, e) for p, e in states + done]
        if isinstance(st, ast.Continue): return [("cont", pc, env)]
        if isinstance(st, ast.Break): return [("brk", pc, env)]
        if isinstance(st, ast.Pass): return [("fall", pc, env)]
        if isinstance(st, ast.Return):
            return [("ret", pc, self.ev(st.value, env))]
        if isinstance(st, ast.Assign):
            v = self.ev(st.value, env)
            for t in st.targets: self.assign(t, v, env)
        elif isinstance(st, ast.AnnAssign):
            self.assign(st.target, self.ev(st.value, env), env)
        elif isinstance(st, ast.AugAssign):
            cur = self.ev(st.target, env); self.assign(st.target, self.binop(st.op, cur, self.ev(st.value, env)), env)
        elif isinstance(st, ast.Expr):
            if not isinstance(st.value, ast.Constant): self.ev(st.value, env)
        elif isinstance(st, ast.Assert):
            pass
        else: raise Unsupported(ast.dump(st)[:80])
        return [("fall", pc, env)]
    def assign(self, t, v, env):
        if isinstance(t, ast.Name): env[t.id] = v
        elif isinstance(t, ast.Tuple):
            for tt, vv in zip(t.elts, v): self.assign(tt, vv, env)
        elif isinstance(t, ast.Subscript):
            self.ev(t.value, env)[self.ev(t.slice, env)] = v
        elif isinstance(t, ast.Attribute):
            setattr(self.ev(t.value, env), t.attr, v)
        else: raise Unsupported(ast.dump(t)[:80])
    def binop(self, op, a, b):
        if isinstance(op, ast.Add):
            if isinstance(a, list): return a + b
            return a + b
        if isinstance(op, ast.Sub): return a - b
        if isinstance(op, ast.Mult):
            if is_sym(a) and is_sym(b) and a.is_int() != b.is_int(): a, b = to_real(a), to_real(b)
            return a * b
        if isinstance(op, ast.Div):
            if not is_sym(a) and not is_sym(b): return fractions.Fraction(a) / fractions.Fraction(b)
            return to_real(a) / to_real(b)
        if isinstance(op, ast.Mod): return a % b
        if isinstance(op, ast.FloorDiv): return a / b if (is_sym(a) or is_sym(b)) else a // b
        raise Unsupported(type(op).__name__)
    def ev(self, e, env):
        if isinstance(e, ast.Constant): return e.value
        if isinstance(e, ast.Name):
            if e.id in env: return env[e.id]
            g = env["__globals__"]
            if e.id in g: return g[e.id]
            import builtins
            return getattr(builtins, e.id)
        if isinstance(e, ast.Attribute):
            return getattr(self.ev(e.value, env), e.attr)
        if isinstance(e, ast.List): return [self.ev(x, env) for x in e.elts]
        if isinstance(e, ast.Tuple): return tuple(self.ev(x, env) for x in e.elts)
        if isinstance(e, ast.BinOp): return self.binop(e.op, self.ev(e.left, env), self.ev(e.right, env))
        if isinstance(e, ast.UnaryOp):
            v = self.ev(e.operand, env)
            if isinstance(e.op, ast.USub): return -v
            if isinstance(e.op, ast.Not): return z3.Not(v) if is_sym(v) else (not v)
        if isinstance(e, ast.Compare):
            l = self.ev(e.left, env); out = []
            for op, r in zip(e.ops, e.comparators):
                r = self.ev(r, env)
                if is_sym(l) and is_sym(r) and l.is_int() != r.is_int(): l2, r2 = to_real(l), to_real(r)
                else: l2, r2 = l, r
                f = {ast.Lt: operator.lt, ast.LtE: operator.le, ast.Gt: operator.gt, ast.GtE: operator.ge, ast.Eq: operator.eq, ast.NotEq: operator.ne,
                     ast.In: lambda a, b: a in b, ast.NotIn: lambda a, b: a not in b, ast.Is: operator.is_, ast.IsNot: operator.is_not}[type(op)]
                out.append(f(l2, r2)); l = r
            return out[0] if len(out) == 1 else (z3.And(*out) if any(is_sym(o) for o in out) else all(out))
        if isinstance(e, ast.Subscript):
            v = self.ev(e.value, env)
            if isinstance(e.slice, ast.Slice):
                lo = self.ev(e.slice.lower, env) if e.slice.lower else None
                hi = self.ev(e.slice.upper, env) if e.slice.upper else None
                return v[lo:hi]
            return v[self.ev(e.slice, env)]
        if isinstance(e, ast.BoolOp):
            vals = [self.ev(x, env) for x in e.values]   # no short-circuit: operands must be side-effect free
            if any(is_sym(v) for v in vals):
                return (z3.And if isinstance(e.op, ast.And) else z3.Or)(*[v if is_sym(v) else z3.BoolVal(bool(v)) for v in vals])
            out = vals[0]
            for v in vals[1:]:
                out = (out and v) if isinstance(e.op, ast.And) else (out or v)
            return out
        if isinstance(e, ast.IfExp):
            c = self.ev(e.test, env)
            if is_sym(c):
                a, b = self.ev(e.body, env), self.ev(e.orelse, env)
                if is_sym(a) and is_sym(b) and a.is_int() != b.is_int(): a, b = to_real(a), to_real(b)
                return z3.If(c, a, b)
            return self.ev(e.body if c else e.orelse, env)
        if isinstance(e, ast.Dict):
            return {self.ev(k, env): self.ev(v, env) for k, v in zip(e.keys, e.values)}
        if isinstance(e, ast.DictComp):
            gen = e.generators[0]; outd = {}
            for x in list(self.ev(gen.iter, env)):
                e2 = dict(env); self.assign(gen.target, x, e2)
                if all(self.ev(c, e2) for c in gen.ifs): outd[self.ev(e.key, e2)] = self.ev(e.value, e2)
            return outd
        if isinstance(e, (ast.ListComp, ast.GeneratorExp)):
            gen = e.generators[0]; out = []
            for x in list(self.ev(gen.iter, env)):
                e2 = dict(env); self.assign(gen.target, x, e2)
                if all(self.ev(c, e2) for c in gen.ifs): out.append(self.ev(e.elt, e2))
            return out
        if isinstance(e, ast.Call): return self.call(e, env)
        raise Unsupported(ast.dump(e)[:80])
    def call(self, e, env):
        args = [self.ev(a, env) for a in e.args]
        if isinstance(e.func, ast.Name) and e.func.id not in env:
            n = e.func.id
            if n == "sum":
                xs = list(args[0]); acc = xs[0] if xs else 0
                for x in xs[1:]: acc = acc + x
                return acc
            if n in ("any", "all"):
                xs = list(args[0])
                if any(is_sym(x) for x in xs):
                    return (z3.Or if n == "any" else z3.And)(*[x if is_sym(x) else z3.BoolVal(bool(x)) for x in xs])
                return any(xs) if n == "any" else all(xs)
            if n == "len":
                v = args[0]
                return v.sym_len if hasattr(v, "sym_len") else len(v)
            if n == "round":
                q = args[0]
                return rhe(to_real(q)) if is_sym(q) else round(q)
            if n == "int":
                v = args[0]
                if is_sym(v): return v if v.is_int() else z3.ToInt(v)   # truncation == floor for v>=0 (asserted by caller)
                return int(v)
            if n == "pow":
                b, ex = args
                if is_sym(b) or is_sym(ex):
                    if hasattr(self, "pow_stub"):
                        return self.pow_stub(b, ex)
                    raise Unsupported("symbolic pow")
                return pow(b, ex)
            if n in ("list", "zip", "range", "enumerate", "accumulate"):
                if n == "accumulate":
                    out = []; acc = None
                    for x in args[0]:
                        acc = x if acc is None else acc + x; out.append(acc)
                    return out
                return list({"list": list, "zip": zip, "range": range, "enumerate": enumerate}[n](*args))
            import builtins
            if hasattr(builtins, n) and n not in env["__globals__"] and not _has_sym(args):
                return getattr(builtins, n)(*args)   # a builtin over concrete values is evaluated
            if n not in env["__globals__"]:
                raise Unsupported("call " + n)
        f = self.ev(e.func, env)
        kwargs = {k.arg: self.ev(k.value, env) for k in e.keywords}
        if (getattr(f, "__module__", "") or "").startswith("geneticengine") and not _has_sym(args) and not _has_sym(list(kwargs.values())):
            return f(*args, **kwargs)   # repository code over concrete arguments runs as it is (concolic step)
        if getattr(f, "_py2smt_native", False) or getattr(getattr(f, "__func__", None), "_py2smt_native", False):
            return f(*args)
        if inspect.ismethod(f) and f.__func__.__module__.startswith("geneticengine"):
            sub = Interp().run(f.__func__, args, self_obj=f.__self__)
            if len(sub) != 1: raise Unsupported("forking callee")
            return sub[0][1]
        if inspect.isbuiltin(f) and isinstance(getattr(f, "__self__", None), (list, dict, tuple)):
            return f(*args)
        raise Unsupported("call " + ast.dump(e.func)[:60])


def _has_sym(v, depth=0):
    if is_sym(v): return True
    if depth < 3 and isinstance(v, (list, tuple, set)): return any(_has_sym(x, depth + 1) for x in v)
    if depth < 3 and isinstance(v, dict): return any(_has_sym(x, depth + 1) for x in v.values())
    return False


class SymLen:
    """stands for a population of symbolic length"""

    def __init__(self, n):
        self.sym_len = n
