"""Independent enumerator of the bounded language L_d of a finite-choice grammar: all well-typed,
refinement-satisfying programs of depth <= d, as canonical structures (vf.oracles.typing.structure).
Depth = longest chain of nested grammar nodes; lists / tuples / unions transparent."""
from __future__ import annotations

import itertools
import typing
from typing import Union, get_args, get_origin

from vf.oracles.typing import BASE, direct_productions, fields, is_abstract


class NotFinite(Exception):
    pass


def _refined_values(base, mh, sib):
    name = type(mh).__name__
    if name == "IntRange":
        return list(range(mh.min, mh.max + 1))
    if name in ("IntList", "FloatList"):
        return list(dict.fromkeys(mh.elements))
    if name == "VarRange":
        return list(dict.fromkeys(mh.options))
    if name == "Dependent":
        deps = mh.name.split(",")
        inner = mh.callable(*[sib[d] for d in deps])
        return ("redirect", inner)
    raise NotFinite(name)


def values(ty, d, classes, sib=None):
    """all values of type form `ty` whose depth is <= d (d = remaining node levels)"""
    o = get_origin(ty)
    if o is typing.Annotated:
        base, mh = get_args(ty)[0], get_args(ty)[1]
        name = type(mh).__name__
        if name in ("ListSizeBetween", "ListSizeBetweenWithoutListOperations"):
            (et,) = get_args(base)
            elems = values(et, d, classes)
            out = []
            for n in range(mh.min, mh.max + 1):
                for combo in itertools.product(elems, repeat=n):
                    out.append(("list", tuple(combo)))
            return out
        if name == "Dependent":
            inner = mh.callable(*[_unstruct(sib[x]) for x in mh.name.split(",")])
            return values(typing.Annotated[base, inner], d, classes, sib)
        if hasattr(mh, "validate") and name not in ("IntRange", "IntList", "FloatList", "VarRange"):
            # user-defined metahandler (fixture-specific): delegated to the fixture's own enumerator
            raise NotFinite(name)
        r = _refined_values(base, mh, sib or {})
        return r
    if ty in BASE:
        raise NotFinite("bare " + ty.__name__)
    if o is list:
        raise NotFinite("bare list")
    if o is tuple:
        parts = [values(a, d, classes) for a in get_args(ty)]
        return [("tuple", tuple(c)) for c in itertools.product(*parts)]
    if o is Union:
        out = []
        for a in get_args(ty):
            for v in values(a, d, classes):
                if v not in out:
                    out.append(v)
        return out
    if isinstance(ty, type):
        if d <= 0:
            return []
        if is_abstract(ty):
            out = []
            for p in direct_productions(ty, classes):
                out.extend(values(p, d, classes))
            return out
        fs = fields(ty)
        partial = [((), {})]
        for name, fty in fs:
            nxt = []
            for vals, env in partial:
                for v in values(fty, d - 1, classes, env):
                    e2 = dict(env)
                    e2[name] = v
                    nxt.append((vals + (v,), e2))
            partial = nxt
        return [(ty.__name__, vals) for vals, _ in partial]
    raise NotFinite(repr(ty))


def _unstruct(v):
    if isinstance(v, tuple) and len(v) == 2 and v[0] == "list":
        return [_unstruct(x) for x in v[1]]
    return v


def language(fx, d):
    # the symbols are the closure of the supplied classes (classes named by fields, classes between
    # a supplied class and an abstract symbol above it): same notion as the grammar oracle
    from vf.oracles.grammar import Analysis

    return values(fx.START, d, list(Analysis(list(fx.CLASSES), fx.START).classes))


def depth_s(s) -> int:
    if isinstance(s, tuple) and len(s) == 2 and s[0] in ("list", "tuple"):
        return max([depth_s(x) for x in s[1]] or [0])
    if isinstance(s, tuple) and len(s) == 2 and isinstance(s[0], str):
        return 1 + max([depth_s(x) for x in s[1]] or [0])
    return 0


def is_full(s, d) -> bool:
    """every branch of the program ends exactly at depth d"""
    if isinstance(s, tuple) and len(s) == 2 and s[0] in ("list", "tuple"):
        kids = [x for x in s[1] if isinstance(x, tuple)]
        return all(is_full(k, d) for k in kids) if kids else d == 0
    if isinstance(s, tuple) and len(s) == 2 and isinstance(s[0], str):
        kids = [x for x in s[1] if isinstance(x, tuple) and len(x) == 2 and isinstance(x[0], str)]
        node_kids = []
        for x in kids:
            if x[0] in ("list", "tuple"):
                node_kids.extend([y for y in x[1] if isinstance(y, tuple)])
            else:
                node_kids.append(x)
        if not node_kids:
            return d == 1
        return all(is_full(k, d - 1) for k in node_kids)
    return True
