"""Independent reference predicates over programs: well-typedness, refinements, depth.

Nothing here imports helper predicates from the repository (is_abstract, get_arguments,
relabel_nodes, validate ...): declarations are read with typing / dataclasses / __mro__ directly and
refinement parameters are read from the metahandler objects' public attributes.
"""
from __future__ import annotations

import typing
from abc import ABC
from typing import Any, Protocol, Union, get_args, get_origin

BASE = (int, float, str, bool)


def fields(cls) -> list[tuple[str, Any]]:
    init = getattr(cls, "__init__", None)
    if init is None or init is object.__init__:
        return []
    try:
        import sys

        hints = typing.get_type_hints(init, globalns=vars(sys.modules[cls.__module__]), include_extras=True)
    except Exception:
        return []
    return [(k, v) for k, v in hints.items() if k != "return"]


def is_abstract(cls) -> bool:
    if not isinstance(cls, type):
        return False
    bases = cls.__mro__[1:2]
    if bases and bases[0] in (ABC, Protocol):
        return True
    return bool(cls.__dict__.get("__gengy__", {}).get("abstract", False))


def direct_productions(abs_cls, classes) -> list:
    return [c for c in classes if isinstance(c, type) and len(c.__mro__) > 1 and c.__mro__[1] is abs_cls]


def is_annotated(ty) -> bool:
    return get_origin(ty) is typing.Annotated


def field_value(node, idx: int, name: str):
    if hasattr(node, name):
        return getattr(node, name)
    return node.gengy_init_values[idx]


class Verdict(Exception):
    def __init__(self, clause, detail):
        self.clause = clause
        self.detail = detail


def _exact_base(v, ty) -> bool:
    t = type(v)
    if ty is bool:
        return t is bool
    if ty is int:
        return t is int
    if ty is float:
        return t is float
    if ty is str:
        return t is str
    return False


def check_welltyped(v, ty, registered: set, siblings: dict | None = None, path: str = "$", refinements: bool = True, typing_: bool = True):
    """raises Verdict(clause, detail) on the first violation.
    typing_: check types; refinements: check refinement predicates (C02)."""
    if is_annotated(ty):
        base, mh = get_args(ty)[0], get_args(ty)[1]
        check_welltyped(v, base, registered, siblings, path, refinements, typing_)
        if refinements:
            check_refinement(v, base, mh, siblings or {}, path)
        return
    origin = get_origin(ty)
    if ty in BASE:
        if typing_ and not _exact_base(v, ty):
            raise Verdict(f"welltyped:base-{ty.__name__}-holds-{type(v).__name__}", {"path": path, "value": show(v)})
        return
    if origin is list:
        if typing_ and not isinstance(v, list):
            raise Verdict("welltyped:list-field-not-list", {"path": path, "type": type(v).__name__})
        (et,) = get_args(ty)
        for i, e in enumerate(v):
            check_welltyped(e, et, registered, None, f"{path}[{i}]", refinements, typing_)
        return
    if origin is tuple:
        if type(v) is not tuple:
            if typing_:
                raise Verdict("welltyped:tuple-field-not-tuple", {"path": path, "type": type(v).__name__})
            return
        ets = get_args(ty)
        if typing_ and len(v) != len(ets):
            raise Verdict("welltyped:tuple-arity", {"path": path})
        for i, (e, et) in enumerate(zip(v, ets)):
            check_welltyped(e, et, registered, None, f"{path}({i})", refinements, typing_)
        return
    if origin is Union:
        last = None
        for alt in get_args(ty):
            try:
                check_welltyped(v, alt, registered, siblings, path, refinements, typing_)
                return
            except Verdict as e:
                last = e
        raise Verdict("welltyped:union-no-alternative-matches", {"path": path, "type": type(v).__name__, "last": last.clause if last else None})
    if isinstance(ty, type):
        t = type(v)
        if typing_:
            if not isinstance(v, ty):
                raise Verdict("welltyped:not-instance-of-declared-class", {"path": path, "declared": ty.__name__, "type": t.__name__})
            if t not in registered or is_abstract(t):
                raise Verdict("welltyped:not-a-registered-concrete-production", {"path": path, "type": t.__name__})
            if not is_abstract(ty) and t is not ty:
                raise Verdict("welltyped:concrete-declared-but-other-class", {"path": path, "declared": ty.__name__, "type": t.__name__})
        sib: dict = {}
        for idx, (name, fty) in enumerate(fields(t)):
            try:
                fv = field_value(v, idx, name)
            except Exception:
                raise Verdict("welltyped:field-missing", {"path": path, "field": name})
            check_welltyped(fv, fty, registered, sib, f"{path}.{name}", refinements, typing_)
            sib[name] = fv
        return
    raise Verdict("oracle:unsupported-type-form", {"path": path, "ty": repr(ty)})


def check_refinement(v, base, mh, siblings: dict, path: str):
    name = type(mh).__name__
    bad = None
    if name == "IntRange":
        if not (mh.min <= v <= mh.max):
            bad = {"min": mh.min, "max": mh.max}
    elif name in ("IntList", "FloatList"):
        if not any(v == e for e in mh.elements):
            bad = {"elements": list(mh.elements)}
    elif name == "FloatRange":
        if not (mh.min <= v <= mh.max):
            bad = {"min": mh.min, "max": mh.max}
    elif name == "VarRange":
        if not any(v == o for o in mh.options):
            bad = {"options": list(mh.options)}
    elif name in ("ListSizeBetween", "ListSizeBetweenWithoutListOperations"):
        if not (mh.min <= len(v) <= mh.max):
            bad = {"min": mh.min, "max": mh.max, "len": len(v)}
    elif name == "StringSizeBetween":
        if not (mh.min <= len(v) <= mh.max and all(c in mh.options for c in v)):
            bad = {"min": mh.min, "max": mh.max, "alphabet": "".join(mh.options)}
    elif name == "WeightedStringHandler":
        rows = mh.probability_matrix.shape[0]
        ok = len(v) == rows and all(c in mh.alphabet for c in v)
        if ok:  # a character of zero probability at its position must never appear
            for i, c in enumerate(v):
                if float(mh.probability_matrix[i][list(mh.alphabet).index(c)]) <= 0.0:
                    ok = False
        if not ok:
            bad = {"rows": rows, "alphabet": list(mh.alphabet)}
    elif name == "IntervalRange":
        ok = type(v) is tuple and len(v) == 2
        if ok:
            length = v[1] - v[0]
            ok = mh.minimum_length <= length <= mh.maximum_length and 0 <= v[0] and v[1] <= mh.maximum_top_limit
        if not ok:
            bad = {"min_len": mh.minimum_length, "max_len": mh.maximum_length, "top": mh.maximum_top_limit}
    elif name == "Dependent":
        deps = mh.name.split(",")
        try:
            vals = [siblings[d] for d in deps]
        except KeyError:
            raise Verdict("oracle:dependent-sibling-missing", {"path": path, "deps": deps})
        inner = mh.callable(*vals)
        check_refinement(v, base, inner, siblings, path)
        return
    else:
        return  # user-defined metahandler without a documented predicate
    if bad is not None:
        bad.update({"path": path, "value": show(v)})
        raise Verdict(f"refinement:{name}-violated", bad)


def depth(v) -> int:
    """longest chain of nested grammar-class instances; lists/tuples transparent; base values 0"""
    if isinstance(v, (list, tuple)):
        d = 0
        for e in v:
            de = depth(e)
            if de > d:
                d = de
        return d
    if type(v) in BASE or isinstance(v, BASE):
        return 0
    d = 0
    for idx, (name, _) in enumerate(fields(type(v))):
        de = depth(field_value(v, idx, name))
        if de > d:
            d = de
    return 1 + d


def structure(v):
    """hashable structural snapshot of a program (class names + values), symbol-preserving"""
    if isinstance(v, list):
        return ("list", tuple(structure(e) for e in v))
    if isinstance(v, tuple):
        return ("tuple", tuple(structure(e) for e in v))
    if type(v) in BASE or isinstance(v, BASE):
        return v
    return (type(v).__name__, tuple(structure(field_value(v, i, n)) for i, (n, _) in enumerate(fields(type(v)))))


def struct_eq(a, b) -> bool:
    if isinstance(a, (list, tuple)):
        if type(a) is not type(b) and not (isinstance(a, list) and isinstance(b, list)):
            return False
        if len(a) != len(b):
            return False
        for x, y in zip(a, b):
            if not struct_eq(x, y):
                return False
        return True
    if isinstance(a, BASE) or isinstance(b, BASE):
        return type(a) is type(b) and a == b if not (hasattr(a, "var") or hasattr(b, "var")) else a == b
    if type(a) is not type(b):
        return False
    for i, (n, _) in enumerate(fields(type(a))):
        if not struct_eq(field_value(a, i, n), field_value(b, i, n)):
            return False
    return True


def show(v):
    """nested description of a program without formatting symbolic values into strings (building a
    string from a symbolic integer is very expensive under CrossHair); realised at a failure only"""
    if isinstance(v, (list, tuple)):
        return [show(e) for e in v]
    if isinstance(v, BASE) or type(v) in BASE:
        return v
    try:
        return [type(v).__name__] + [show(field_value(v, i, n)) for i, (n, _) in enumerate(fields(type(v)))]
    except Exception:
        return type(v).__name__
