"""Reference relations for variation operators (C06) and structural snapshots (C09)."""
from __future__ import annotations

from vf.oracles.typing import BASE, field_value, fields, struct_eq
from typing import get_args, get_origin, Union
import typing


def _is_node(v):
    return not isinstance(v, (list, tuple)) and not isinstance(v, BASE)


def subtrees(v, out=None):
    """all grammar-node subtrees of a program (including itself)"""
    if out is None:
        out = []
    if isinstance(v, (list, tuple)):
        for e in v:
            subtrees(e, out)
    elif _is_node(v):
        out.append(v)
        for i, (n, _) in enumerate(fields(type(v))):
            subtrees(field_value(v, i, n), out)
    return out


def _class_of(ty):
    """the class a declared type form demands of a node at that position (None = any)"""
    if get_origin(ty) is typing.Annotated:
        return _class_of(get_args(ty)[0])
    if isinstance(ty, type):
        return ty
    return None


def is_donor_material(c, ty, donors) -> bool:
    cls = _class_of(ty)
    for d in donors:
        if (cls is None or isinstance(d, cls)) and type(d) is type(c) and struct_eq(c, d):
            return True
    return False


def one_subtree_replaced(p, c, ty, donors) -> bool:
    """c is p with at most one subtree replaced by a same-typed subtree that occurs in `donors`"""
    if isinstance(p, (list, tuple)):
        if not isinstance(c, (list, tuple)) or len(p) != len(c):
            return False
        ets = get_args(ty) if get_origin(ty) in (list, tuple) else ()
        if get_origin(ty) is typing.Annotated:
            inner = get_args(ty)[0]
            ets = get_args(inner)
        diff = [i for i in range(len(p)) if not struct_eq(p[i], c[i])]
        if not diff:
            return True
        if len(diff) > 1:
            return False
        i = diff[0]
        et = ets[0] if len(ets) == 1 else (ets[i] if i < len(ets) else None)
        return one_subtree_replaced(p[i], c[i], et, donors)
    if not _is_node(p) or not _is_node(c):
        return struct_eq(p, c)
    if struct_eq(p, c):
        return True
    if is_donor_material(c, ty, donors):
        return True
    if type(p) is not type(c):
        return False
    fs = fields(type(p))
    diff = [(i, n, t) for i, (n, t) in enumerate(fs) if not struct_eq(field_value(p, i, n), field_value(c, i, n))]
    if len(diff) != 1:
        return False
    i, n, t = diff[0]
    return one_subtree_replaced(field_value(p, i, n), field_value(c, i, n), t, donors)


# ------------------------------------------------------------------ snapshots (C09)
def tree_snapshot(v):
    """by-value snapshot of a program including the metadata carried by every node"""
    if isinstance(v, (list, tuple)):
        meta = None
        if hasattr(v, "gengy_nodes"):
            meta = (v.gengy_nodes, v.gengy_distance_to_term, v.gengy_weighted_nodes)
        return ("seq", type(v).__name__, id(v), meta, tuple(tree_snapshot(e) for e in v))
    if not _is_node(v):
        return ("val", v)
    meta = tuple(getattr(v, a, None) for a in ("gengy_labeled", "gengy_nodes", "gengy_distance_to_term", "gengy_weighted_nodes"))
    ttw = getattr(v, "gengy_types_this_way", None)
    ttw_s = tuple(sorted((k.__name__, tuple(id(x) for x in xs)) for k, xs in ttw.items())) if ttw is not None else None
    sc = getattr(v, "gengy_synthesis_context", None)
    sc_s = (sc.depth, sc.nodes, sc.expansions) if sc is not None else None
    iv = getattr(v, "gengy_init_values", None)
    kids = tuple(tree_snapshot(field_value(v, i, n)) for i, (n, _) in enumerate(fields(type(v))))
    return ("node", type(v).__name__, id(v), meta, ttw_s, sc_s, id(iv) if iv is not None else None, tuple(id(x) for x in iv) if iv is not None else None, kids)


def snap_eq(a, b) -> bool:
    """equality of snapshots; symbolic leaf values compare through the solver"""
    if isinstance(a, tuple) and isinstance(b, tuple):
        if len(a) != len(b):
            return False
        for x, y in zip(a, b):
            if not snap_eq(x, y):
                return False
        return True
    if isinstance(a, tuple) or isinstance(b, tuple):
        return False
    if a is None or b is None:
        return a is b
    from vf.engine.sym import same_value

    if same_value(a, b):  # same object / same solver term: no solver call
        return True
    return bool(a == b)


def genotype_snapshot(rep_kind: str, geno):
    if rep_kind == "tree":
        return tree_snapshot(geno)
    if rep_kind in ("ge", "stack"):
        return ("dna", id(geno.dna), tuple(geno.dna))
    return ("sdna", id(geno.dna), tuple((str(k), id(v), tuple(v)) for k, v in geno.dna.items()))
