"""Independent grammar analysis straight from the class declarations (least fixpoints over the
derivation relation): productions, minimum derivation depth, recursion, reachability.

Depth convention (the one the properties use): the depth of a program is the longest chain of
nested grammar-class instances; lists, tuples, unions and refinements are transparent; base values
count 0.  With expansion_depthing every abstract-to-production expansion and every list/tuple
wrapper adds one more level (the repository's documented alternative counting mode).
"""
from __future__ import annotations

import typing
from abc import ABC
from typing import Generic, Protocol, Union, get_args, get_origin

from vf.oracles.typing import BASE, direct_productions, fields, is_abstract

INF = 10**6


def _list_may_be_empty(mh) -> bool:
    name = type(mh).__name__
    if name in ("ListSizeBetween", "ListSizeBetweenWithoutListOperations"):
        return mh.min <= 0
    return False


def _is_list_alias(ty) -> bool:
    """Generic aliases of list subclasses (GengyList[int]) are lists"""
    o = get_origin(ty)
    return isinstance(o, type) and issubclass(o, list)


class Analysis:
    def __init__(self, classes, start, expansion_depthing: bool = False, lists_transparent_nonempty: bool = False):
        """lists_transparent_nonempty=True reproduces the repository's documented simplification
        that a list contributes the depth of its element type even when it may be empty."""
        self.classes = list(classes)
        if start not in self.classes:  # the start symbol is itself supplied (it may be a production of a type it mentions)
            self.classes.append(start)
        self.start = start
        # a class named as a field type is supplied by that declaration even if it is not listed
        # (the library registers it, and with it its place under its abstract parent)
        grew = True
        while grew:
            grew = False
            for c in list(self.classes) + [start]:
                if isinstance(c, type) and not is_abstract(c):
                    for _, fty in fields(c):
                        for m in self.components(fty):
                            if m not in self.classes:
                                self.classes.append(m)
                                grew = True
            # a supplied class below an abstract symbol is derivable from it: the classes between
            # the two are symbols as well, whether or not they were listed
            for c in list(self.classes):
                if not isinstance(c, type):
                    continue
                for b in c.__mro__[1:]:
                    if b in self.classes or b in (object, ABC, Protocol, Generic):
                        continue
                    if any(isinstance(a, type) and is_abstract(a) and a is not b and issubclass(b, a) for a in self.classes):
                        self.classes.append(b)
                        grew = True
        self.exp = 1 if expansion_depthing else 0
        self.nonempty = lists_transparent_nonempty
        self.symbols = self._reachable()
        self.min_depth = self._min_depths()
        self.recursive = self._recursive()

    # ---- derivation relation
    def productions(self, abs_cls):
        return direct_productions(abs_cls, self.classes)

    def components(self, ty):
        """class symbols directly mentioned by a type form"""
        if get_origin(ty) is typing.Annotated:
            yield from self.components(get_args(ty)[0])
        elif get_origin(ty) in (list, tuple, Union) or _is_list_alias(ty):
            for a in get_args(ty):
                yield from self.components(a)
        elif isinstance(ty, type) and ty not in BASE:
            yield ty

    def successors(self, sym):
        if is_abstract(sym):
            return list(self.productions(sym))
        out = []
        for _, fty in fields(sym):
            out.extend(self.components(fty))
        return out

    def _reachable(self):
        seen, todo = [], [self.start]
        while todo:
            s = todo.pop(0)
            if s in seen:
                continue
            seen.append(s)
            todo.extend(self.successors(s))
        return seen

    # ---- minimum depth (least fixpoint)
    def type_min(self, ty, d):
        o = get_origin(ty)
        if o is typing.Annotated:
            base, mh = get_args(ty)[0], get_args(ty)[1]
            if get_origin(base) is list:
                if not self.nonempty and _list_may_be_empty(mh):
                    return self.exp
                known = type(mh).__name__ in ("ListSizeBetween", "ListSizeBetweenWithoutListOperations")
                if known or self.nonempty:  # at least one element is required
                    return self.exp + self.type_min(get_args(base)[0], d)
            return self.type_min(base, d)
        if ty in BASE:
            return self.exp if self.exp else 0
        if o is list or _is_list_alias(ty):
            if not self.nonempty:
                return self.exp  # a bare list may be empty
            return self.exp + self.type_min(get_args(ty)[0], d)
        if o is tuple:
            return self.exp + max([self.type_min(a, d) for a in get_args(ty)] or [0])
        if o is Union:
            return self.exp + min(self.type_min(a, d) for a in get_args(ty))
        return d.get(ty, INF)

    def _min_depths(self):
        d = {s: INF for s in self.symbols}
        changed = True
        while changed:
            changed = False
            for s in self.symbols:
                if is_abstract(s):
                    v = min([self.exp + d[p] for p in self.productions(s) if p in d] or [INF])
                else:
                    fs = fields(s)
                    v = 1 + max([self.type_min(t, d) for _, t in fs] or [0])
                v = min(v, INF)
                if v < d[s]:
                    d[s] = v
                    changed = True
        return d

    # ---- recursion: X =>+ ... X ...
    def _recursive(self):
        rec = set()
        for s in self.symbols:
            seen, todo = set(), list(self.successors(s))
            while todo:
                t = todo.pop()
                if t in seen:
                    continue
                seen.add(t)
                todo.extend(self.successors(t))
            if s in seen:
                rec.add(s)
        return rec


def analyze(fx, **kw) -> Analysis:
    return Analysis(fx.CLASSES, fx.START, **kw)
