"""Reference recomputation of the per-node metadata (C11), from the actual structure only.

Conventions (default counting mode, expansion_depthing=False; pinned by the repository's own
tests: tests/representations/tree_based/relabel_test.py `Concrete().gengy_distance_to_term == 0`,
initializer_test `gengy_distance_to_term == target_depth`):
  * a base value or a field-less production is a terminal: nodes 0, distance 0, weighted 0;
  * an inner node: nodes = 1 + sum(children nodes); distance = max(1, 1 + max children distance);
    weighted = sum(children weighted) + own distance;
  * lists (and tuples) are transparent: they contribute their elements' values;
  * types-this-way: for every grammar class K, the descendants (including the node itself) whose
    class is exactly K, as an identity multiset.
"""
from __future__ import annotations

from vf.oracles.typing import BASE, field_value, fields


def _children(v):
    if isinstance(v, (list, tuple)):
        return list(v)
    return [field_value(v, i, n) for i, (n, _) in enumerate(fields(type(v)))]


def is_node(v) -> bool:
    return not isinstance(v, (list, tuple)) and not isinstance(v, BASE) and type(v) not in BASE


def measure(v):
    """returns (nodes, distance, weighted) with lists/tuples transparent"""
    if isinstance(v, (list, tuple)):
        n = d = w = 0
        for e in v:
            ne, de, we = measure(e)
            n += ne
            w += we
            d = max(d, de if isinstance(e, (list, tuple)) else de + 1)
        return n, d, w
    if not is_node(v):
        return 0, 0, 0
    ch = _children(v)
    if not fields(type(v)):
        return 0, 0, 0
    n, d, w = 1, 1, 0
    for c in ch:
        nc, dc, wc = measure(c)
        n += nc
        w += wc
        if isinstance(c, (list, tuple)):
            d = max(d, dc)
        else:
            d = max(d, dc + 1)
    return n, d, w + d


def is_inner(v) -> bool:
    return is_node(v) and bool(fields(type(v)))


def descendants(v, out=None):
    if out is None:
        out = []
    if isinstance(v, (list, tuple)):
        for e in v:
            descendants(e, out)
        return out
    if not is_node(v):
        return out
    out.append(v)
    for c in _children(v):
        descendants(c, out)
    return out


def all_nodes(v):
    return descendants(v)
