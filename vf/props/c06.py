"""C06 - crossover recombines parental material; point mutation is local."""
from __future__ import annotations

from geneticengine.algorithms.gp.operators.crossover import GenericCrossoverStep
from geneticengine.algorithms.gp.operators.mutation import GenericMutationStep
from geneticengine.evaluation.sequential import SequentialEvaluator
from geneticengine.solutions.individual import Individual

from vf.engine import synth
from vf.engine.ob import Ob
from vf.engine.sym import Ctx, FreshRandom, same_value
from vf.oracles import recomb as OR
from vf.oracles import typing as OT

PROPERTY = "C06"
FUNCTIONS = [
    "treebased.mutate / tree_crossover / find_in_tree, tree.utils.relabel_nodes (types-this-way index)",
    "ge / stackgggp one-point crossover and single-codon mutation",
    "structured_ge / dynamic_structured_ge per-key uniform crossover and single-gene mutation",
    "gp.operators.crossover.GenericCrossoverStep, gp.operators.mutation.GenericMutationStep",
]
ASSUMPTIONS = [
    "parents are whatever the real create_genotype produces over a symbolic source (all genes / all tree shapes up to the depth bound)",
    "tree relation: child == parent with at most one subtree replaced by a structurally equal subtree of the other parent whose class fits the declared type at that position (an unchanged child is accepted)",
    "bounds: tree parents of depth <= 2 (thorough 3); gene length <= 4 (thorough 8); structured genotypes on <=4-key grammars",
]


def _dna_ready(ctx, cfg, rep, r):
    g = rep.create_genotype(r)
    if cfg["rep"] == "dsge":  # genes appear on demand: map once so that there is something to recombine
        try:
            rep.genotype_to_phenotype(g)
        except synth.LIBRARY_ERRORS:
            pass
    return g


def _check_linear_child(ctx, c, p1, p2, tag):
    ctx.require(len(c) == len(p1), "crossover:length-changed", lambda: {"child": tag, "len": len(c), "parent": len(p1)})
    for l in range(len(c)):
        # identity first: comparing two different symbolic genes by value forks the path
        ok = (l < len(p1) and same_value(c[l], p1[l])) or (l < len(p2) and same_value(c[l], p2[l]))
        ok = ok or (l < len(p1) and c[l] == p1[l]) or (l < len(p2) and c[l] == p2[l])
        ctx.require(ok, "crossover:gene-from-neither-parent", lambda: {"child": tag, "locus": l})


def h_crossover(ctx: Ctx, cfg):
    fx, g = synth.make_grammar(ctx, cfg)
    r = FreshRandom(ctx)
    rep = synth.make_rep(cfg, g, r)
    kind = cfg["rep"]
    try:
        p1, p2 = _dna_ready(ctx, cfg, rep, r), _dna_ready(ctx, cfg, rep, r)
    except synth.LIBRARY_ERRORS:
        return
    if cfg.get("mutate_first"):  # parents as later generations see them: one of them is a mutant
        p1 = rep.mutate(r, p1)
    c1, c2 = rep.crossover(r, p1, p2)
    ctx.reached()
    if kind == "tree":
        d2, d1 = OR.subtrees(p2), OR.subtrees(p1)
        ctx.note("p1", OT.show(p1))
        ctx.note("p2", OT.show(p2))
        ctx.require(OR.one_subtree_replaced(p1, c1, fx.START, d2), "crossover:child-not-parent-with-one-donor-subtree", lambda: {"parent": OT.show(p1), "other": OT.show(p2), "child": OT.show(c1)})
        ctx.require(OR.one_subtree_replaced(p2, c2, fx.START, d1), "crossover:child-not-parent-with-one-donor-subtree", lambda: {"parent": OT.show(p2), "other": OT.show(p1), "child": OT.show(c2)})
    elif kind in ("ge", "stack"):
        _check_linear_child(ctx, c1.dna, p1.dna, p2.dna, "c1")
        _check_linear_child(ctx, c2.dna, p2.dna, p1.dna, "c2")
    else:
        for c, pa, pb, tag in ((c1, p1, p2, "c1"), (c2, p2, p1, "c2")):
            ctx.require(set(map(str, c.dna)) <= set(map(str, pa.dna)) | set(map(str, pb.dna)), "crossover:key-from-neither-parent")
            ctx.require(set(map(str, c.dna)) == set(map(str, p1.dna)), "crossover:key-set-changed", lambda: {"child": sorted(map(str, c.dna)), "parent": sorted(map(str, p1.dna))})
            for k in c.dna:
                a, b = pa.dna.get(k, []), pb.dna.get(k, [])
                ctx.require(len(c.dna[k]) in (len(a), len(b)), "crossover:gene-list-length-from-neither-parent")
                for l, v in enumerate(c.dna[k]):
                    ok = (l < len(a) and same_value(v, a[l])) or (l < len(b) and same_value(v, b[l]))
                    ok = ok or (l < len(a) and v == a[l]) or (l < len(b) and v == b[l])
                    ctx.require(ok, "crossover:gene-from-neither-parent", lambda: {"child": tag, "key": str(k), "locus": l})


def h_mutate(ctx: Ctx, cfg):
    fx, g = synth.make_grammar(ctx, cfg)
    r = FreshRandom(ctx)
    rep = synth.make_rep(cfg, g, r)
    kind = cfg["rep"]
    try:
        p = _dna_ready(ctx, cfg, rep, r)
    except synth.LIBRARY_ERRORS:
        return
    m = rep.mutate(r, p)
    ctx.reached()
    if kind in ("ge", "stack"):
        ctx.require(len(m.dna) == len(p.dna), "mutation:length-changed")
        diff = sum(1 for a, b in zip(m.dna, p.dna) if not same_value(a, b) and a != b)
        ctx.require(diff <= 1, "mutation:more-than-one-gene-changed", lambda: {"changed": diff})
    else:
        ctx.require(set(map(str, m.dna)) == set(map(str, p.dna)) and len(m.dna) == len(p.dna), "mutation:key-set-changed")
        diff = 0
        for k in p.dna:
            ctx.require(len(m.dna[k]) == len(p.dna[k]), "mutation:gene-list-length-changed", lambda: {"key": str(k)})
            diff += sum(1 for a, b in zip(m.dna[k], p.dna[k]) if not same_value(a, b) and a != b)
        ctx.require(diff <= 1, "mutation:more-than-one-gene-changed", lambda: {"changed": diff})


def h_mutate_after_crossover(ctx: Ctx, cfg):
    """genotypes reachable by create -> map -> crossover -> map: point mutation still changes at
    most one gene and keeps the shape (parents that read different sets of keys included)"""
    fx, g = synth.make_grammar(ctx, cfg)
    r = FreshRandom(ctx)
    rep = synth.make_rep(cfg, g, r)
    try:
        p1, p2 = _dna_ready(ctx, cfg, rep, r), _dna_ready(ctx, cfg, rep, r)
    except synth.LIBRARY_ERRORS:
        return
    children = rep.crossover(r, p1, p2)
    for c in children:
        try:
            rep.genotype_to_phenotype(c)
        except synth.LIBRARY_ERRORS:
            pass
        before = {k: list(v) for k, v in c.dna.items()}
        ids = [id(v) for v in c.dna.values()]
        ctx.require(len(set(ids)) == len(ids), "crossover:child-keys-share-one-gene-list", lambda: {"keys": [str(k) for k in c.dna]})
        m = rep.mutate(r, c)
        ctx.reached()
        ctx.require(set(map(str, m.dna)) == set(map(str, before)) and len(m.dna) == len(before), "mutation:key-set-changed")
        diff = 0
        for k in before:
            ctx.require(len(m.dna[k]) == len(before[k]), "mutation:gene-list-length-changed", lambda: {"key": str(k)})
            diff += sum(1 for a, b in zip(m.dna[k], before[k]) if not same_value(a, b) and a != b)
            ctx.require(all(same_value(a, b) for a, b in zip(c.dna[k], before[k])) and len(c.dna[k]) == len(before[k]), "mutation:modifies-its-argument", lambda: {"key": str(k)})
        ctx.require(diff <= 1, "mutation:more-than-one-gene-changed", lambda: {"changed": diff, "keys": [str(k) for k in before]})


def h_steps(ctx: Ctx, cfg):
    """GenericCrossoverStep / GenericMutationStep produce offspring related to the individuals
    they were given by the representation's operator relation (or pass them through)"""
    fx, g = synth.make_grammar(ctx, cfg)
    r = FreshRandom(ctx)
    rep = synth.make_rep(cfg, g, r)
    n = cfg["n"]
    pop = [Individual(rep.create_genotype(r), rep) for _ in range(n)]
    prob = ctx.pick([0.0, 0.5, 1.0], "probability")
    if cfg["step"] == "crossover":
        out = list(GenericCrossoverStep(prob).apply(None, SequentialEvaluator(), rep, r, list(pop), n, 1))
        ctx.reached()
        for o in out:
            if any(o is i for i in pop):
                continue
            ok = False
            for a in pop:
                for b in pop:
                    if a is b:
                        continue
                    if all(same_value(o.genotype.dna[l], a.genotype.dna[l]) or same_value(o.genotype.dna[l], b.genotype.dna[l]) for l in range(len(o.genotype.dna))):
                        ok = True
            ctx.require(ok and len(o.genotype.dna) == len(pop[0].genotype.dna), "step:crossover-offspring-not-from-two-population-members")
    else:
        out = list(GenericMutationStep(prob).apply(None, SequentialEvaluator(), rep, r, list(pop), n, 1))
        ctx.reached()
        ctx.require(len(out) == n, "step:mutation-count")
        for o, i in zip(out, pop):
            if o is i:
                continue
            diff = sum(1 for a, b in zip(o.genotype.dna, i.genotype.dna) if not same_value(a, b) and a != b)
            ctx.require(diff <= 1 and len(o.genotype.dna) == len(i.genotype.dna), "step:mutation-offspring-not-local", lambda: {"changed": diff})


HARNESSES = {"crossover": h_crossover, "mutate": h_mutate, "steps": h_steps, "mutate_after_crossover": h_mutate_after_crossover}


def obligations(tier: str):
    T = tier == "thorough"
    obs = []

    def add(h, name, timeout=100, **cfg):
        cfg.setdefault("fuel", 200)
        obs.append(Ob(h, cfg, name=name, timeout=timeout * (8 if T else 1), path_timeout=60))

    add("crossover", "tree_crossover_f11_concrete_start", fixture="f11", rep="tree", decider="grow", max_depth=3, timeout=200)
    add("crossover", "tree_crossover_f1_d1", fixture="f1", rep="tree", decider="grow", max_depth=1, timeout=60)
    for fxn in ("f0",) + (("f1", "f3") if T else ()):  # f2 (lists): 1700+ paths, not exhausted in 1200 s
        add("crossover", f"tree_crossover_{fxn}", fixture=fxn, rep="tree", decider="grow", max_depth=2, timeout=60)
    for rep in ("ge", "stack"):
        gl = 8 if T else 4
        add("crossover", f"{rep}_crossover", fixture="f0", rep=rep, decider="grow", max_depth=2, gene_length=gl)
        add("mutate", f"{rep}_mutate", fixture="f0", rep=rep, decider="grow", max_depth=2, gene_length=gl)
    for rep in ("sge", "dsge"):
        fxn = "fmin" if rep == "sge" and not T else "f0"
        add("crossover", f"{rep}_crossover", fixture=fxn, rep=rep, decider="grow", max_depth=2 if rep == "sge" else 3, gene_length=3 if T else 2, timeout=200)
        add("mutate", f"{rep}_mutate", fixture=fxn, rep=rep, decider="grow", max_depth=2 if rep == "sge" else 3, gene_length=3 if T else 2, timeout=200)
    # crossover of a mutant (generation 2 onwards): the order in which a keyed genotype holds its keys is not part of its value
    add("crossover", "sge_crossover_of_mutant", fixture="fmin", rep="sge", decider="grow", max_depth=2, gene_length=1, mutate_first=True, timeout=300)
    add("crossover", "dsge_crossover_of_mutant", fixture="f8", rep="dsge", max_depth=2, mutate_first=True, timeout=300)
    # parents that have read different sets of keys (f8: none / int / bool+int)
    add("mutate_after_crossover", "dsge_mutate_after_crossover_f8", fixture="f8", grammar_fn="grammar_p0_p3" if not T else "grammar", rep="dsge", max_depth=2, timeout=200)
    add("crossover", "dsge_crossover_f8", fixture="f8", rep="dsge", max_depth=2, timeout=200)
    if T:
        add("mutate_after_crossover", "dsge_mutate_after_crossover_f0", fixture="f0", rep="dsge", max_depth=3, timeout=200)
        add("mutate_after_crossover", "sge_mutate_after_crossover_fmin", fixture="fmin", rep="sge", decider="grow", max_depth=2, gene_length=1, timeout=200)
    for step in ("crossover", "mutation"):
        add("steps", f"step_{step}_ge", fixture="f0", rep="ge", decider="grow", max_depth=2, gene_length=3, step=step, n=3 if T else 2)
    return obs
