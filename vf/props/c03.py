"""C03 - depth limits are respected and every feasible depth limit is usable."""
from __future__ import annotations

from geneticengine.exceptions import GeneticEngineError
from geneticengine.representations.tree import initializations as INI

from vf.engine import synth
from vf.engine.ob import Ob
from vf.engine.sym import Ctx, FreshRandom
from vf.oracles import grammar as OG
from vf.oracles import typing as OT

PROPERTY = "C03"
FUNCTIONS = [
    "tree.initializations.MaxDepthDecider/FullDecider/PositionIndependentGrowDecider.choose_production_alternatives + validate",
    "dynamic_structured_ge.DynamicSGEDecider.choose_production_alternatives + validate",
    "tree.initializations.create_node (depth contexts), treebased.mutate / tree_crossover, GE/SGE mapping through the deciders",
    "tree.operators.FullInitializer / GrowInitializer / PositionIndependentGrowInitializer",
]
ASSUMPTIONS = [
    "minimum depth m of each grammar is the ORACLE's (vf/oracles/grammar.py least fixpoint over the class declarations), not the repository's",
    "max_depth ranges over {m, m+1, m+2} (thorough also m+3) and the infeasible m-1; deeper limits are outside the claim",
    "grammars: f0,f1,f3,f4 (+ f2/f2b whose possibly-empty lists make the repository's minimum conservative: known finding)",
]


def _depth_ok(ctx, p, md, stage):
    ctx.reached()
    d = OT.depth(p)
    ctx.require(d <= md, "depth:program-exceeds-max-depth", lambda: {"stage": stage, "max_depth": md, "depth": d, "program": OT.show(p)})


def h_feasible(ctx: Ctx, cfg):
    """max_depth = m + delta >= m: construction and creation succeed on every path, depth <= max"""
    fx, g = synth.make_grammar(ctx, cfg)
    m = ctx.concrete(lambda: OG.analyze(fx).min_depth[fx.START])
    md = m + cfg["delta"]
    ctx.note("max_depth", md)
    r = FreshRandom(ctx)
    c = dict(cfg, max_depth=md)
    try:
        rep = synth.make_rep(c, g, r)
    except GeneticEngineError as e:
        ctx.fail("depth:feasible-limit-rejected", {"max_depth": md, "oracle_min": m, "error": str(e)[:160]})
    try:
        g1 = rep.create_genotype(r)
        p1 = rep.genotype_to_phenotype(g1)
    except synth.LIBRARY_ERRORS as e:
        ctx.fail("depth:creation-fails-under-feasible-limit", {"max_depth": md, "oracle_min": m, "error": type(e).__name__ + ": " + str(e)[:160]})
    _depth_ok(ctx, p1, md, "create")
    cur = g1
    for k, op in enumerate(cfg.get("ops", [])):
        try:
            if op == "mutate":
                cur = rep.mutate(r, cur)
                ph = [rep.genotype_to_phenotype(cur)]
            else:
                other = rep.create_genotype(r)
                c1, c2 = rep.crossover(r, cur, other)
                ph = [rep.genotype_to_phenotype(c1), rep.genotype_to_phenotype(c2)]
                cur = c1
        except synth.LIBRARY_ERRORS as e:
            ctx.fail("depth:variation-fails-under-feasible-limit", {"max_depth": md, "op": op, "error": type(e).__name__})
        for p in ph:
            _depth_ok(ctx, p, md, f"{op}#{k}")


def h_infeasible(ctx: Ctx, cfg):
    """max_depth = m - 1: rejected with GeneticEngineError before any program node is built"""
    fx, g = synth.make_grammar(ctx, cfg)
    m = ctx.concrete(lambda: OG.analyze(fx).min_depth[fx.START])
    md = m - 1
    built = []
    orig = INI.apply_constructor

    def counting(ty, args):
        built.append(ty)
        return orig(ty, args)

    INI.apply_constructor = counting
    r = FreshRandom(ctx)
    try:
        try:
            rep = synth.make_rep(dict(cfg, max_depth=md), g, r)
            g1 = rep.create_genotype(r)
            p = rep.genotype_to_phenotype(g1)
        except GeneticEngineError:
            ctx.reached()
            ctx.require(len(built) == 0, "depth:infeasible-limit-fails-midway", lambda: {"max_depth": md, "nodes_built": len(built)})
            return
        except Exception as e:
            ctx.reached()
            ctx.fail("depth:infeasible-limit-not-rejected-with-library-error", {"max_depth": md, "error": type(e).__name__})
        ctx.reached()
        ctx.fail("depth:infeasible-limit-accepted", {"max_depth": md, "oracle_min": m, "depth": OT.depth(p)})
    finally:
        INI.apply_constructor = orig


def h_initializer(ctx: Ctx, cfg):
    """tree population initialisers: depth of every individual <= the configured maximum"""
    from geneticengine.representations.tree import operators as OPS
    from geneticengine.representations.tree.treebased import TreeBasedRepresentation

    fx, g = synth.make_grammar(ctx, cfg)
    m = ctx.concrete(lambda: OG.analyze(fx).min_depth[fx.START])
    md = m + cfg["delta"]
    r = FreshRandom(ctx)
    rep = TreeBasedRepresentation(g, INI.MaxDepthDecider(r, g, md))
    kind = cfg["init"]
    init = OPS.FullInitializer(md) if kind == "full" else OPS.PositionIndependentGrowInitializer(md)
    try:
        inds = list(init.initialize(None, rep, r, cfg["n"]))
    except synth.LIBRARY_ERRORS as e:
        ctx.fail("depth:initializer-fails-under-feasible-limit", {"max_depth": md, "error": type(e).__name__ + ": " + str(e)[:120]})
    for i in inds:
        _depth_ok(ctx, i.get_phenotype(), md, kind)


HARNESSES = {"feasible": h_feasible, "infeasible": h_infeasible, "initializer": h_initializer}


def obligations(tier: str):
    T = tier == "thorough"
    obs = []

    def add(h, name, timeout=100, **cfg):
        cfg.setdefault("fuel", 200)
        obs.append(Ob(h, cfg, name=name, timeout=timeout * (8 if T else 1), path_timeout=60))

    deltas = (0, 1, 2, 3) if T else (0, 1, 2)
    for fxn in ("f1", "f3", "f4", "f0", "f9", "f10", "f13", "f14") + (("f3b",) if T else ()):
        for dec in ("grow", "full", "pi"):
            for d in deltas:
                if fxn in ("f1", "f4") and d >= 2 and dec != "grow" and not T:
                    continue
                if fxn == "f4" and d >= 2 and not T:
                    continue
                if fxn in ("f1",) and d >= 3:
                    continue
                add("feasible", f"tree_{dec}_{fxn}_m+{d}", fixture=fxn, rep="tree", decider=dec, delta=d)
            add("infeasible", f"tree_{dec}_{fxn}_m-1", fixture=fxn, rep="tree", decider=dec)
    # tuple fields with abstract members (containers are transparent for depth)
    for dec in ("grow", "full", "pi"):
        for d in (0, 1, 2) if T else (0, 1):
            add("feasible", f"tree_{dec}_f7tuple_m+{d}", fixture="f7", grammar_fn="grammar_tuple", rep="tree", decider=dec, delta=d)
    add("feasible", "tree_grow_f7_m+1", fixture="f7", rep="tree", decider="grow", delta=1)
    add("feasible", "dsge_f7tuple_m+1", fixture="f7", grammar_fn="grammar_tuple", rep="dsge", decider="grow", delta=1, gene_length=2)
    add("feasible", "ge_f7tuple_m+1", fixture="f7", grammar_fn="grammar_tuple", rep="ge", decider="grow", delta=1, gene_length=6)
    # generated hierarchies
    from vf.fixtures import family

    for k in family.interesting(3, 300, every=30 if T else 90):
        for d in (0, 1):
            add("feasible", f"tree_grow_family{k}_m+{d}", fixture="family", index=k, rep="tree", decider="grow", delta=d)
    for rep in ("ge", "sge", "dsge"):
        gl = 6 if rep == "ge" else 2
        for fxn in ("f1", "f3") + (("f4",) if T else ()):
            for d in (0, 1) + ((2,) if T and fxn != "f1" else ()):
                add("feasible", f"{rep}_{fxn}_m+{d}", fixture=fxn, rep=rep, decider="grow", delta=d, gene_length=gl)
            add("infeasible", f"{rep}_{fxn}_m-1", fixture=fxn, rep=rep, decider="grow", gene_length=gl)
    for rep in ("ge", "sge"):
        add("feasible", f"{rep}_f9_m+1", fixture="f9", rep=rep, decider="grow", delta=1, gene_length=6 if rep == "ge" else 2)
    for op in ("mutate", "crossover"):
        add("feasible", f"tree_grow_f9_m+1_{op}", fixture="f9", rep="tree", decider="grow", delta=1, ops=[op])
    # after variation, same limit
    for fxn in ("f1", "f3"):
        for op in ("mutate", "crossover"):
            d = 1 if fxn == "f1" or T else 0
            add("feasible", f"tree_grow_{fxn}_m+{d}_{op}", fixture=fxn, rep="tree", decider="grow", delta=d, ops=[op])
    add("feasible", "dsge_f0_m+1_mutate", fixture="f0", rep="dsge", delta=1, ops=["mutate"])
    add("feasible", "dsge_f0_m+1_crossover", fixture="f0", rep="dsge", delta=1, ops=["crossover"])
    if T:
        add("feasible", "tree_grow_f1_m+1_mutate_crossover", fixture="f1", rep="tree", decider="grow", delta=1, ops=["mutate", "crossover"])
        add("feasible", "ge_f0_m+1_mutate", fixture="f0", rep="ge", decider="grow", delta=1, ops=["mutate"], gene_length=3)
        add("feasible", "sge_f0_m+1_crossover", fixture="f0", rep="sge", decider="grow", delta=1, ops=["crossover"], gene_length=2)
    # lists that may be empty: the repository's minimum is conservative (known finding)
    add("feasible", "tree_grow_f2b_m+0", fixture="f2b", grammar_fn="grammar_bag_only", rep="tree", decider="grow", delta=0)
    add("feasible", "tree_grow_f2_m+1", fixture="f2", rep="tree", decider="grow", delta=1)
    for kind in ("full", "pigrow"):
        for fxn in ("f1", "f0"):
            add("initializer", f"init_{kind}_{fxn}_m+1", fixture=fxn, init=kind, delta=1, n=2)
        for d in (1, 2):
            add("initializer", f"init_{kind}_f13_m+{d}", fixture="f13", init=kind, delta=d, n=1)
        add("initializer", f"init_{kind}_f12_m+2", fixture="f12", init=kind, delta=2, n=1)
    return obs
