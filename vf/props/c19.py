"""C19 - production weights are normalised per non-terminal, stable and respected."""
from __future__ import annotations

import time

from geneticengine.grammar.grammar import Grammar, extract_grammar

from vf.engine import synth
from vf.engine.ob import Ob
from vf.engine.sym import Ctx, FreshRandom
from vf.fixtures import f6
from vf.oracles import recomb as OR

PROPERTY = "C19"
FUNCTIONS = [
    "grammar.grammar.Grammar.update_weights (numeric part: engine B, AST->z3 over Reals, current source), extract_grammar, get_weights",
    "tree.initializations.ProgressivelyTerminalDecider.choose_production_alternatives, random.sources.RandomSource.choice_weighted (engine A)",
    "stackgggp.create_tree_using_stacks (weighted choice of the target type)",
]
ASSUMPTIONS = [
    "engine B: declared weights are z3 Reals (exact arithmetic) stored in the declarations of real classes; Grammar.get_weights and the whole of Grammar.update_weights are interpreted from the current source (repository calls over concrete arguments - Grammar.__init__, register_type, preprocess - run natively); rule structure concrete: one rule of 1-4 productions, two independent rules, two- and three-level nesting; every listed subset of productions declared (the others count as weight one); three successive extractions",
    "rules of at most 4 productions: with 5 symbolic weights in one rule z3 answered unknown (120 s) on 2 of 31 declared subsets and overran its timeout on one - outside the claim",
    "precondition: every rule has at least one positive weight (an all-zero rule cannot be normalised; the property does not say what should happen)",
    "repeated real extraction is compared with tolerance 1e-9 relative (one-ulp float drift is not a finding)",
]


STRUCTS = {
    "one_rule_1": {"R": ["a"]},
    "one_rule_2": {"R": ["a", "b"]},
    "one_rule_3": {"R": ["a", "b", "c"]},
    "one_rule_4": {"R": ["a", "b", "c", "d"]},
    "two_rules": {"R": ["a", "b"], "S": ["c", "d", "e"]},
    "nested_f6": {"Root": ["A", "Z", "B", "Sub"], "Sub": ["S1", "S2"]},
    "nested_3": {"Root": ["A", "Mid"], "Mid": ["M1", "Low"], "Low": ["L1", "L2"]},
}


# a production with a field of another rule's type (how an independent rule is reached)
FIELDS = {"two_rules": {"a": "S"}}


def masks(struct, every_subset=False):
    """the subsets of productions that carry a declared weight (the others count as weight one);
    every_subset: all non-empty subsets (thorough tier), named by their bit pattern"""
    alts = STRUCTS[struct]
    if every_subset:
        allp = [p for ps in alts.values() for p in ps]
        return {"s" + format(b, "0%db" % len(allp)): [p for i, p in enumerate(allp) if b >> i & 1] for b in range(1, 2 ** len(allp))}
    rules = list(alts)
    allp = [p for ps in alts.values() for p in ps]
    out = {"all": allp, "first": allp[:1], "alternate": allp[::2]}
    if len(rules) > 1:
        out["first_rule"] = list(alts[rules[0]])
        out["last_rule"] = list(alts[rules[-1]])
    if len(allp) > 1:
        out["last"] = allp[-1:]
    return out


def build(struct, declared: dict):
    """real classes for a structure: every rule an abstract class (the first one the start symbol;
    a rule that is a production of another rule is a nested abstract class), productions concrete
    dataclasses; `declared` maps production name -> weight to declare"""
    from abc import ABC
    from dataclasses import make_dataclass

    from geneticengine.grammar.decorators import abstract, weight

    alts = STRUCTS[struct]
    made = {}
    nested = {p for ps in alts.values() for p in ps}
    for r in alts:
        if r not in nested:
            made[r] = type(r, (ABC,), {})
    for r, ps in alts.items():
        for p in ps:
            if p in alts:
                c = abstract(type(p, (made[r],), {}))
            else:
                f = FIELDS.get(struct, {}).get(p)
                c = make_dataclass(p, [("x", made[f] if f else int)], bases=(made[r],))
            made[p] = weight(declared[p])(c) if p in declared else c
    start = made[list(alts)[0]]
    return start, [c for n, c in made.items() if c is not start], made


def _extract_interpreted(start, classes):
    """extract_grammar's steps with update_weights run through the interpreter over the CURRENT
    source (the whole method: normalisation, write-back into the class declarations, rebuild)"""
    from geneticengine.grammar.decorators import get_gengy
    from vf.engine.py2smt import Interp

    g = Grammar(start, classes, False)
    g.register_type(start)
    g.preprocess()
    if any("weight" in get_gengy(p) for p in classes):
        it = Interp()
        w0 = it.run(Grammar.get_weights, [], self_obj=g)
        assert len(w0) == 1
        outs = it.run(Grammar.update_weights, [1, w0[0][1]], self_obj=g)
        assert len(outs) == 1, "forking in update_weights"
    it = Interp()
    w = it.run(Grammar.get_weights, [], self_obj=g)
    assert len(w) == 1
    return {k.__name__: v for k, v in w[0][1].items()}


def smt_update_weights(cfg):
    import z3

    alts = STRUCTS[cfg["struct"]]
    decl_names = masks(cfg["struct"], cfg["mask"].startswith("s") and set(cfg["mask"][1:]) <= {"0", "1"})[cfg["mask"]]
    allp = [p for ps in alts.values() for p in ps]
    sym = {n: z3.Real("w_" + n) for n in decl_names}
    d = {n: sym.get(n, z3.RealVal(1)) for n in allp}
    pre = [sym[n] >= 0 for n in decl_names] + [z3.Sum([d[p] for p in ps]) > 0 for ps in alts.values()]
    start, classes, made = build(cfg["struct"], sym)
    w1 = _extract_interpreted(start, classes)  # first extraction
    w2 = _extract_interpreted(start, classes)  # the same classes extracted again
    w3 = _extract_interpreted(start, classes)
    queries, t_solver = [], 0.0
    for r, ps in alts.items():
        queries.append((f"{r}:non-negative", z3.Or([w1[p] < 0 for p in ps])))
        queries.append((f"{r}:sum-to-one", z3.Sum([w1[p] for p in ps]) != 1))
        queries.append((f"{r}:ratios-preserved", z3.Or([w1[p] * d[q] != w1[q] * d[p] for p in ps for q in ps if p < q] or [z3.BoolVal(False)])))
        queries.append((f"{r}:idempotent", z3.Or([w2[p] != w1[p] for p in ps] + [w3[p] != w1[p] for p in ps])))
    n_unsat = n_unknown = 0
    for name, neg in queries:
        s = z3.Solver()
        s.set("timeout", int(cfg.get("timeout_ms", 60000)))
        s.add(*pre, neg)
        t0 = time.time()
        r = str(s.check())
        t_solver += time.time() - t0
        if r == "unsat":
            n_unsat += 1
        elif r == "sat":
            m = s.model()
            model = {n: str(m.eval(sym[n], True)) for n in decl_names}
            return {"verdict": "refuted", "clause": "weights:" + name.split(":")[-1], "model": {"struct": cfg["struct"], "mask": cfg["mask"], "weights": model, "query": name}, "queries": len(queries), "unsat": n_unsat, "sat": 1, "unknown": n_unknown, "solver_s": round(t_solver, 2), "encoded": "Grammar.update_weights, Grammar.get_weights (current source)"}
        else:
            n_unknown += 1
    return {"verdict": "confirmed" if not n_unknown else "inconclusive", "message": f"{n_unknown} unknown" if n_unknown else "", "queries": len(queries), "unsat": n_unsat, "sat": 0, "unknown": n_unknown, "solver_s": round(t_solver, 2), "validated": _validate(cfg["struct"], decl_names), "encoded": "Grammar.update_weights, Grammar.get_weights (current source)"}


_VALIDATION_WEIGHTS = [3, 1, 0, 2, 5, 4, 7]


def _validate(struct, decl_names):
    """translator validation: the interpreted extraction on exact rationals vs the real
    extract_grammar on the same structure with the same declared weights"""
    import fractions

    conc = {n: _VALIDATION_WEIGHTS[i % 7] for i, n in enumerate(decl_names)}
    if all(v == 0 for v in conc.values()):
        conc[decl_names[0]] = 2
    start, classes, _ = build(struct, {k: fractions.Fraction(v) for k, v in conc.items()})
    enc = _extract_interpreted(start, classes)
    start2, classes2, _ = build(struct, {k: float(v) for k, v in conc.items()})
    real = {k.__name__: v for k, v in extract_grammar(classes2, start2).get_weights().items()}
    bad = [k for k in real if abs(float(enc[k]) - real[k]) > 1e-9]
    if bad:
        raise RuntimeError(f"translator validation failed for {bad}: encoding {[float(enc[k]) for k in bad]} real {[real[k] for k in bad]}")
    return len(real)


def smt_replay_update_weights(cfg, model):
    """replay on real classes declared with the model's weights: extract three times"""
    import fractions

    alts = STRUCTS[model["struct"]]
    ws = {k: float(fractions.Fraction(v)) for k, v in model["weights"].items()}
    start, classes, _ = build(model["struct"], ws)
    clause = "weights:" + model["query"].split(":")[-1]
    try:
        runs = [{k.__name__: v for k, v in extract_grammar(classes, start).get_weights().items()} for _ in range(3)]
    except Exception as e:
        return {"ok": False, "clause": clause, "detail": {"error": type(e).__name__ + ": " + str(e)[:200], "declared": ws}}
    got = runs[0]
    bad = []
    for r, ps in alts.items():
        tot = sum(got[p] for p in ps)
        if abs(tot - 1) > 1e-9:
            bad.append(("sum", r, tot))
        if any(got[p] < 0 for p in ps):
            bad.append(("negative", r))
        for p in ps:
            for q in ps:
                if abs(got[p] * ws.get(q, 1.0) - got[q] * ws.get(p, 1.0)) > 1e-9:
                    bad.append(("ratio", p, q))
            if any(abs(run[p] - got[p]) > 1e-9 * max(1, abs(got[p])) for run in runs[1:]):
                bad.append(("re-extraction", p, [run[p] for run in runs]))
    return {"ok": not bad, "clause": None if not bad else clause, "detail": {"declared": ws, "extracted": got, "bad": [list(map(str, b)) for b in bad[:6]]}}


SMT = {"update_weights": smt_update_weights}
SMT_REPLAY = {"update_weights": smt_replay_update_weights}


# ----------------------------------------------------------------------------- engine A
def h_repeat_extraction(ctx: Ctx, cfg):
    """real classes (f6): 1, 2, 3 extractions give the same weights; sums, ratios, non-negativity"""
    def three():
        g1 = f6.grammar()
        a = {k.__name__: v for k, v in g1.get_weights().items()}
        b = {k.__name__: v for k, v in extract_grammar(list(f6.CLASSES), f6.START).get_weights().items()}
        c = {k.__name__: v for k, v in extract_grammar(list(f6.CLASSES), f6.START).get_weights().items()}
        return a, b, c

    w1, w2, w3 = ctx.concrete(three)  # no symbolic input: run outside the tracer
    ctx.reached()
    rules = {"Root": ["A", "Z", "B", "Sub"], "Sub": ["S1", "S2"]}
    decl = {n: f6.DECLARED.get(n, 1) for ps in rules.values() for n in ps}
    for r, ps in rules.items():
        ctx.require(abs(sum(w1[p] for p in ps) - 1) < 1e-9, "weights:sum-to-one", lambda: {"rule": r, "weights": {p: w1[p] for p in ps}})
        ctx.require(all(w1[p] >= 0 for p in ps), "weights:non-negative")
        for p in ps:
            for q in ps:
                ctx.require(abs(w1[p] * decl[q] - w1[q] * decl[p]) < 1e-9, "weights:ratios-preserved", lambda: {"p": p, "q": q, "weights": {x: w1[x] for x in ps}, "declared": decl})
    for k in w1:
        ctx.require(abs(w1[k] - w2[k]) <= 1e-9 * max(1, abs(w1[k])) and abs(w1[k] - w3[k]) <= 1e-9 * max(1, abs(w1[k])), "weights:idempotent", lambda: {"class": k, "first": w1[k], "second": w2[k], "third": w3[k]})


def _no_zero_weight_node(ctx, fx, g, p, stage):
    ctx.reached()
    for n in OR.subtrees(p):
        ctx.require(type(n).__name__ != "Z", "weights:zero-weight-production-chosen", {"stage": stage})


def h_chooser(ctx: Ctx, cfg):
    synth.pipeline(ctx, cfg, _no_zero_weight_node)


def h_weighted_target_choice(ctx: Ctx, cfg):
    """the stack mapper's weighted choice of a target type over the grammar's weights"""
    fx, g = synth.make_grammar(ctx, cfg)
    types = ctx.concrete(lambda: sorted(g.get_all_mentioned_symbols(), key=repr))
    weights = g.get_weights()
    r = FreshRandom(ctx)
    c = r.choice_weighted(list(types), [weights.get(x, 1) for x in types])
    ctx.reached()
    ctx.require(weights.get(c, 1) > 0, "weights:zero-weight-production-chosen", lambda: {"chosen": getattr(c, "__name__", "?")})


def h_pt_choice(ctx: Ctx, cfg):
    """ProgressivelyTerminalDecider directly, at symbolic depth: never a zero-weight alternative"""
    from geneticengine.representations.tree.initializations import ProgressivelyTerminalDecider
    from geneticengine.solutions.tree import LocalSynthesisContext

    fx, g = synth.make_grammar(ctx, cfg)
    r = FreshRandom(ctx)
    d = ProgressivelyTerminalDecider(r, g)
    depth = ctx.cint(0, cfg["D"], "depth")
    alts = list(g.alternatives[fx.START])
    c = d.choose_production_alternatives(fx.START, alts, LocalSynthesisContext(depth, 0, 0, {}))
    ctx.reached()
    ctx.require(any(c is a for a in alts), "weights:chosen-production-not-an-alternative")
    ctx.require(g.get_weights()[c] > 0, "weights:zero-weight-production-chosen", lambda: {"chosen": c.__name__, "depth": depth})


HARNESSES = {"repeat_extraction": h_repeat_extraction, "chooser": h_chooser, "pt_choice": h_pt_choice, "weighted_target_choice": h_weighted_target_choice}


def obligations(tier: str):
    T = tier == "thorough"
    obs = []
    for st in STRUCTS:
        if st in ("one_rule_4", "nested_3") and not T:
            continue
        for mk in masks(st, every_subset=T):
            obs.append(Ob("update_weights", {"struct": st, "mask": mk, "timeout_ms": 120000 if T else 30000}, name=f"engineB_update_weights_{st}_{mk}", kind="smt", timeout=300 if T else 150, twin=False, smoke=0))
    obs.append(Ob("repeat_extraction", {}, name="concrete_f6_repeated_extraction", timeout=60, smoke=1))
    obs.append(Ob("pt_choice", {"fixture": "f6", "D": 6 if T else 3}, name="pt_decider_choice_f6"))
    obs.append(Ob("pt_choice", {"fixture": "f6", "grammar_fn": "grammar_zero_first", "D": 6 if T else 3}, name="pt_decider_choice_f6_zero_weight_first"))
    obs.append(Ob("chooser", {"fixture": "f6", "grammar_fn": "grammar_zero_first", "rep": "tree", "decider": "pt", "fuel": 14 if T else 9, "ops": []}, name="tree_pt_f6_zero_first_no_zero_weight_node", timeout=800 if T else 100))
    obs.append(Ob("chooser", {"fixture": "f6", "rep": "tree", "decider": "pt", "fuel": 14 if T else 9, "ops": []}, name="tree_pt_f6_no_zero_weight_node", timeout=800 if T else 100))
    obs.append(Ob("weighted_target_choice", {"fixture": "f6"}, name="stack_weighted_target_choice_f6"))
    return obs
