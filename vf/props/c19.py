"""C19 - production weights are normalised per non-terminal, stable and respected."""
from __future__ import annotations

import ast
import inspect
import textwrap
import time

from geneticengine.grammar.grammar import Grammar, extract_grammar

from vf.engine import synth
from vf.engine.ob import Ob
from vf.engine.sym import Ctx, FreshRandom
from vf.fixtures import f6
from vf.oracles import recomb as OR

PROPERTY = "C19"
FUNCTIONS = [
    "grammar.grammar.Grammar.update_weights (numeric part: engine B, AST->z3 over Reals, current source), extract_grammar, get_weights",
    "tree.initializations.ProgressivelyTerminalDecider.choose_production_alternatives, random.sources.RandomSource.choice_weighted (engine A)",
    "stackgggp.create_tree_using_stacks (weighted choice of the target type)",
]
ASSUMPTIONS = [
    "engine B: weights are z3 Reals (exact arithmetic), rule structure concrete: one rule of 1-4 productions, two independent rules, and the nested structure of fixture f6; learning rate 1 and extra == current weights, as extract_grammar calls it",
    "precondition: every rule has at least one positive weight (an all-zero rule cannot be normalised; the property does not say what should happen)",
    "repeated real extraction is compared with tolerance 1e-9 relative (one-ulp float drift is not a finding)",
]


class _FakeGrammar:
    """stands for `self` while the numeric prefix of update_weights is interpreted"""

    def __init__(self, alternatives, weights):
        self.alternatives = alternatives
        self._w = weights

    def get_weights(self):
        return dict(self._w)

    get_weights._py2smt_native = True


def _numeric_prefix_len():
    """number of leading statements of update_weights up to and including the normalisation loop"""
    src = textwrap.dedent(inspect.getsource(Grammar.update_weights))
    body = ast.parse(src).body[0].body
    for i, st in enumerate(body):
        if isinstance(st, ast.For) and "alternatives" in ast.dump(st.iter):
            return i + 1
    raise RuntimeError("normalisation loop not found in update_weights")


STRUCTS = {
    "one_rule_1": {"R": ["a"]},
    "one_rule_2": {"R": ["a", "b"]},
    "one_rule_3": {"R": ["a", "b", "c"]},
    "one_rule_4": {"R": ["a", "b", "c", "d"]},
    "two_rules": {"R": ["a", "b"], "S": ["c", "d", "e"]},
    "nested_f6": {"Root": ["A", "Z", "B", "Sub"], "Sub": ["S1", "S2"]},
}


def _apply(alts, w):
    """one update_weights(1, w) step through the interpreter over the CURRENT source"""
    from vf.engine.py2smt import Interp

    fake = _FakeGrammar(alts, w)
    outs = Interp().run_prefix(Grammar.update_weights, [1, dict(w)], fake, _numeric_prefix_len())
    assert len(outs) == 1, "forking in update_weights"
    return outs[0][1]["weights"]


def smt_update_weights(cfg):
    import z3

    alts = STRUCTS[cfg["struct"]]
    names = sorted({p for ps in alts.values() for p in ps} | set(alts))
    d = {n: z3.Real("w_" + n) for n in names}
    pre = [d[n] >= 0 for n in names] + [z3.Sum([d[p] for p in ps]) > 0 for ps in alts.values()]
    w1 = _apply(alts, d)
    w2 = _apply(alts, w1)
    queries, t_solver = [], 0.0
    for r, ps in alts.items():
        queries.append((f"{r}:non-negative", z3.Or([w1[p] < 0 for p in ps])))
        queries.append((f"{r}:sum-to-one", z3.Sum([w1[p] for p in ps]) != 1))
        queries.append((f"{r}:ratios-preserved", z3.Or([w1[p] * d[q] != w1[q] * d[p] for p in ps for q in ps if p < q] or [z3.BoolVal(False)])))
        queries.append((f"{r}:idempotent", z3.Or([w2[p] != w1[p] for p in ps])))
    # weights outside any rule are left alone
    loose = [n for n in names if not any(n in ps for ps in alts.values())]
    if loose:
        queries.append(("non-production-weights-untouched", z3.Or([w1[n] != d[n] for n in loose])))
    n_unsat = n_unknown = 0
    for name, neg in queries:
        s = z3.Solver()
        s.set("timeout", int(cfg.get("timeout_ms", 60000)))
        s.add(*pre, neg)
        t0 = time.time()
        r = str(s.check())
        t_solver += time.time() - t0
        if r == "unsat":
            n_unsat += 1
        elif r == "sat":
            m = s.model()
            model = {n: str(m.eval(d[n], True)) for n in names}
            return {"verdict": "refuted", "clause": "weights:" + name.split(":")[-1], "model": {"struct": cfg["struct"], "weights": model, "query": name}, "queries": len(queries), "unsat": n_unsat, "sat": 1, "unknown": n_unknown, "solver_s": round(t_solver, 2), "encoded": "Grammar.update_weights numeric prefix (current source)"}
        else:
            n_unknown += 1
    return {"verdict": "confirmed" if not n_unknown else "inconclusive", "message": f"{n_unknown} unknown" if n_unknown else "", "queries": len(queries), "unsat": n_unsat, "sat": 0, "unknown": n_unknown, "solver_s": round(t_solver, 2), "validated": _validate(alts), "encoded": "Grammar.update_weights numeric prefix (current source)"}


def _validate(alts):
    """translator validation: the encoding evaluated on concrete weights vs the real method on real classes (f6 structure only)"""
    import fractions

    g = f6.grammar()
    real = {k.__name__: v for k, v in g.get_weights().items()}
    decl = {c.__name__: fractions.Fraction(f6.DECLARED.get(c.__name__, 1)) for c in f6.CLASSES + [f6.Root]}
    enc = _apply(STRUCTS["nested_f6"], {k: decl.get(k, fractions.Fraction(1)) for k in ["Root", "A", "Z", "B", "Sub", "S1", "S2"]})
    bad = [k for k in ("A", "Z", "B", "Sub", "S1", "S2") if abs(float(enc[k]) - real[k]) > 1e-9]
    if bad:
        raise RuntimeError(f"translator validation failed for {bad}: encoding {[float(enc[k]) for k in bad]} real {[real[k] for k in bad]}")
    return 6


def smt_replay_update_weights(cfg, model):
    """replay on real classes built with the model's weights"""
    import fractions
    from abc import ABC
    from dataclasses import make_dataclass

    from geneticengine.grammar.decorators import weight

    alts = STRUCTS[model["struct"]]
    ws = {k: float(fractions.Fraction(v)) for k, v in model["weights"].items()}
    roots = {}
    classes = []
    top = type("Top", (ABC,), {})
    for r, ps in alts.items():
        parent = roots.get(r) or type(r, (top, ABC) if r not in [p for q in alts.values() for p in q] else (ABC,), {})
        roots[r] = parent
    # build a flat hierarchy: every rule an abstract class, productions concrete dataclasses
    made = {}
    for r, ps in alts.items():
        base = made.get(r) or type(r, (ABC,), {})
        made[r] = base
        for p in ps:
            if p in alts:
                sub = type(p, (base,), {})
                from geneticengine.grammar.decorators import abstract

                made[p] = weight(ws[p])(abstract(sub))
            else:
                made[p] = weight(ws[p])(make_dataclass(p, [("x", int)], bases=(base,)))
    start = made[list(alts)[0]]
    cls = [c for n, c in made.items() if n != list(alts)[0]]
    try:
        g = extract_grammar(cls, start)
    except Exception as e:
        return {"ok": False, "clause": "weights:" + model["query"].split(":")[-1], "detail": {"error": type(e).__name__ + ": " + str(e)[:200], "weights": ws}}
    got = {k.__name__: v for k, v in g.get_weights().items()}
    bad = []
    for r, ps in alts.items():
        if r != list(alts)[0] and r not in made:
            continue
        tot = sum(got[p] for p in ps)
        if abs(tot - 1) > 1e-9 or any(got[p] < 0 for p in ps):
            bad.append((r, tot))
        for p in ps:
            for q in ps:
                if abs(got[p] * ws[q] - got[q] * ws[p]) > 1e-9:
                    bad.append((p, q))
    return {"ok": not bad, "clause": None if not bad else "weights:" + model["query"].split(":")[-1], "detail": {"declared": ws, "extracted": got, "bad": [list(map(str, b)) for b in bad]}}


SMT = {"update_weights": smt_update_weights}
SMT_REPLAY = {"update_weights": smt_replay_update_weights}


# ----------------------------------------------------------------------------- engine A
def h_repeat_extraction(ctx: Ctx, cfg):
    """real classes (f6): 1, 2, 3 extractions give the same weights; sums, ratios, non-negativity"""
    def three():
        g1 = f6.grammar()
        a = {k.__name__: v for k, v in g1.get_weights().items()}
        b = {k.__name__: v for k, v in extract_grammar(list(f6.CLASSES), f6.START).get_weights().items()}
        c = {k.__name__: v for k, v in extract_grammar(list(f6.CLASSES), f6.START).get_weights().items()}
        return a, b, c

    w1, w2, w3 = ctx.concrete(three)  # no symbolic input: run outside the tracer
    ctx.reached()
    rules = {"Root": ["A", "Z", "B", "Sub"], "Sub": ["S1", "S2"]}
    decl = {n: f6.DECLARED.get(n, 1) for ps in rules.values() for n in ps}
    for r, ps in rules.items():
        ctx.require(abs(sum(w1[p] for p in ps) - 1) < 1e-9, "weights:sum-to-one", lambda: {"rule": r, "weights": {p: w1[p] for p in ps}})
        ctx.require(all(w1[p] >= 0 for p in ps), "weights:non-negative")
        for p in ps:
            for q in ps:
                ctx.require(abs(w1[p] * decl[q] - w1[q] * decl[p]) < 1e-9, "weights:ratios-preserved", lambda: {"p": p, "q": q, "weights": {x: w1[x] for x in ps}, "declared": decl})
    for k in w1:
        ctx.require(abs(w1[k] - w2[k]) <= 1e-9 * max(1, abs(w1[k])) and abs(w1[k] - w3[k]) <= 1e-9 * max(1, abs(w1[k])), "weights:idempotent", lambda: {"class": k, "first": w1[k], "second": w2[k], "third": w3[k]})


def _no_zero_weight_node(ctx, fx, g, p, stage):
    ctx.reached()
    for n in OR.subtrees(p):
        ctx.require(type(n).__name__ != "Z", "weights:zero-weight-production-chosen", {"stage": stage})


def h_chooser(ctx: Ctx, cfg):
    synth.pipeline(ctx, cfg, _no_zero_weight_node)


def h_weighted_target_choice(ctx: Ctx, cfg):
    """the stack mapper's weighted choice of a target type over the grammar's weights"""
    fx, g = synth.make_grammar(ctx, cfg)
    types = ctx.concrete(lambda: sorted(g.get_all_mentioned_symbols(), key=repr))
    weights = g.get_weights()
    r = FreshRandom(ctx)
    c = r.choice_weighted(list(types), [weights.get(x, 1) for x in types])
    ctx.reached()
    ctx.require(weights.get(c, 1) > 0, "weights:zero-weight-production-chosen", lambda: {"chosen": getattr(c, "__name__", "?")})


def h_pt_choice(ctx: Ctx, cfg):
    """ProgressivelyTerminalDecider directly, at symbolic depth: never a zero-weight alternative"""
    from geneticengine.representations.tree.initializations import ProgressivelyTerminalDecider
    from geneticengine.solutions.tree import LocalSynthesisContext

    fx, g = synth.make_grammar(ctx, cfg)
    r = FreshRandom(ctx)
    d = ProgressivelyTerminalDecider(r, g)
    depth = ctx.cint(0, cfg["D"], "depth")
    alts = list(g.alternatives[fx.START])
    c = d.choose_production_alternatives(fx.START, alts, LocalSynthesisContext(depth, 0, 0, {}))
    ctx.reached()
    ctx.require(any(c is a for a in alts), "weights:chosen-production-not-an-alternative")
    ctx.require(g.get_weights()[c] > 0, "weights:zero-weight-production-chosen", lambda: {"chosen": c.__name__, "depth": depth})


HARNESSES = {"repeat_extraction": h_repeat_extraction, "chooser": h_chooser, "pt_choice": h_pt_choice, "weighted_target_choice": h_weighted_target_choice}


def obligations(tier: str):
    T = tier == "thorough"
    obs = []
    for st in STRUCTS:
        if st == "one_rule_4" and not T:
            continue
        obs.append(Ob("update_weights", {"struct": st, "timeout_ms": 120000 if T else 30000}, name=f"engineB_update_weights_{st}", kind="smt", timeout=900 if T else 150, twin=False, smoke=0))
    obs.append(Ob("repeat_extraction", {}, name="concrete_f6_repeated_extraction", timeout=60, smoke=1))
    obs.append(Ob("pt_choice", {"fixture": "f6", "D": 6 if T else 3}, name="pt_decider_choice_f6"))
    obs.append(Ob("pt_choice", {"fixture": "f6", "grammar_fn": "grammar_zero_first", "D": 6 if T else 3}, name="pt_decider_choice_f6_zero_weight_first"))
    obs.append(Ob("chooser", {"fixture": "f6", "grammar_fn": "grammar_zero_first", "rep": "tree", "decider": "pt", "fuel": 14 if T else 9, "ops": []}, name="tree_pt_f6_zero_first_no_zero_weight_node", timeout=800 if T else 100))
    obs.append(Ob("chooser", {"fixture": "f6", "rep": "tree", "decider": "pt", "fuel": 14 if T else 9, "ops": []}, name="tree_pt_f6_no_zero_weight_node", timeout=800 if T else 100))
    obs.append(Ob("weighted_target_choice", {"fixture": "f6"}, name="stack_weighted_target_choice_f6"))
    return obs
