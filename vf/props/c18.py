"""C18 - random primitives honour their contracts for every random source."""
from __future__ import annotations

import sys

import geneticengine.random.sources as S
from geneticengine.representations.grammatical_evolution import ge as GE
from geneticengine.representations.grammatical_evolution import structured_ge as SGE
from geneticengine.representations.grammatical_evolution import dynamic_structured_ge as DSGE
from geneticengine.representations import stackgggp as STACK
from geneticengine.representations.tree import initializations as INI

from vf.engine.ob import Ob
from vf.engine.sym import Ctx, FreshRandom, sym_genes
from vf.fixtures import f1

PROPERTY = "C18"

BOUNDS = [(-3, -3), (0, 0), (-2, 5), (0, 1), (0, 1000), (-500, 500), (0, 1001), (-7, 2000), (0, 10**6), (-(sys.maxsize - 1), sys.maxsize)]


class Lbl:
    def __init__(self, k):
        self.k = k

    def __repr__(self):
        return f"L{self.k}"


def h_choice(ctx: Ctx, cfg):
    n = ctx.cint(1, cfg["n"], "len")
    opts = [Lbl(i) for i in range(n)]
    snapshot = list(opts)
    r = FreshRandom(ctx)
    v = r.choice(opts)
    ctx.reached()
    ctx.require(any(v is o for o in snapshot), "choice-not-member", lambda: repr(v))
    ctx.require(opts == snapshot, "choice-modified-options")


def h_choice_weighted(ctx: Ctx, cfg):
    n = ctx.cint(1, cfg["n"], "len")
    weights = [ctx.int(0, cfg["wmax"], "w") for _ in range(n)]
    if not any(w > 0 for w in weights):
        ctx.abandon("precondition:all-zero-weights")
    opts = [Lbl(i) for i in range(n)]
    r = FreshRandom(ctx)
    v = r.choice_weighted(opts, list(weights))
    ctx.reached()
    idx = [i for i, o in enumerate(opts) if o is v]
    ctx.require(len(idx) == 1, "choice_weighted-not-member")
    i = idx[0]
    ctx.note("weights", weights)
    ctx.note("returned", i)
    ctx.require(weights[i] > 0, "choice_weighted-zero-weight-returned", lambda: {"weights": weights, "returned": i, "draw": r.log[-1]})
    # proportionality as an interval identity: the primitive asks for one uniform integer; the
    # number of outcomes must equal the total integer weight and option i must own exactly the
    # block [acc_{i-1}, acc_i) of them.
    ctx.require(len(r.log) == 1, "choice_weighted-draw-count")
    lo, hi, d = r.log[0]
    iw = [w * 100000 for w in weights]
    ctx.require(hi - lo + 1 == sum(iw), "choice_weighted-outcome-count-not-total-weight", lambda: {"lo": lo, "hi": hi, "total": sum(iw)})
    acc = 0
    for j in range(n):
        if acc <= d - lo < acc + iw[j]:
            ctx.require(i == j, "choice_weighted-not-proportional", lambda: {"weights": weights, "draw": d, "returned": i, "expected": j})
        acc += iw[j]


FRACTIONS = [0.0, 1.0 / 3.0, 0.29, 1.0 / 7.0, 0.5, 2.0 / 7.0, 1e-6]


def h_choice_weighted_fractional(ctx: Ctx, cfg):
    """fractional (already normalised / user-declared) weights: the scaled integer thresholds are
    concrete per path, the draw is symbolic; a zero-weight option is never returned, whatever its
    position, and the returned option is a member"""
    n = ctx.cint(2, cfg["n"], "len")
    weights = [ctx.pick(FRACTIONS, "w") for _ in range(n)]
    if not any(w > 0 for w in weights):
        ctx.abandon("precondition:all-zero-weights")
    opts = [Lbl(i) for i in range(n)]
    r = FreshRandom(ctx) if cfg.get("kind") is None else _wrapper(cfg["kind"], sym_genes(ctx, 1))
    v = r.choice_weighted(opts, list(weights))
    ctx.reached()
    idx = [i for i, o in enumerate(opts) if o is v]
    ctx.require(len(idx) == 1, "choice_weighted-not-member")
    ctx.require(weights[idx[0]] > 0, "choice_weighted-zero-weight-returned", lambda: {"weights": weights, "returned": idx[0]})


def h_shuffle(ctx: Ctx, cfg):
    n = ctx.cint(0, cfg["n"], "len")
    lst = [Lbl(i) for i in range(n)]
    snapshot = list(lst)
    r = FreshRandom(ctx)
    out = r.shuffle(lst)
    ctx.reached()
    ctx.require(len(out) == n, "shuffle-length")
    for o in snapshot:
        ctx.require(sum(1 for x in out if x is o) == 1, "shuffle-not-permutation", lambda: repr(out))


def h_shuffle_all_perms(ctx: Ctx, cfg):
    """every permutation is reachable (witness queries): returns normally unless target reached"""
    n = cfg["n"]
    lst = list(range(n))
    r = FreshRandom(ctx)
    out = r.shuffle(lst)
    ctx.reached()
    out = [int(x) for x in out]
    ctx.require(out != cfg["target"], "witness-found", lambda: out)


def h_pop_random(ctx: Ctx, cfg):
    n = ctx.cint(1, cfg["n"], "len")
    lst = [Lbl(i) for i in range(n)]
    snapshot = list(lst)
    r = FreshRandom(ctx)
    v = r.pop_random(lst)
    ctx.reached()
    ctx.require(any(v is o for o in snapshot), "pop_random-not-member")
    ctx.require(len(lst) == n - 1, "pop_random-length")
    for o in snapshot:
        cnt = sum(1 for x in lst if x is o)
        ctx.require(cnt == (0 if o is v else 1), "pop_random-remainder-wrong", lambda: (repr(v), repr(lst)))


def h_random_bool(ctx: Ctx, cfg):
    r = FreshRandom(ctx)
    v = r.random_bool()
    ctx.reached()
    ctx.require(v is True or v is False, "random_bool-not-bool", lambda: repr(v))


def _wrapper(kind, genes):
    if kind == "ge":
        return GE.ListWrapper(genes)
    if kind == "stack":
        return STACK.ListWrapper(genes)
    if kind == "sge":
        return SGE.StructuredListWrapper({SGE.INFRASTRUCTURE_KEY: genes, "k": list(genes)})
    raise KeyError(kind)


def h_wrapper_randint(ctx: Ctx, cfg):
    n = ctx.cint(1, cfg["genes"], "genes")
    genes = sym_genes(ctx, n)
    lo, hi = ctx.pick(BOUNDS, "bounds")
    w = _wrapper(cfg["kind"], genes)
    for _ in range(cfg["calls"]):
        v = w.randint(lo, hi)
        ctx.reached()
        ctx.require(lo <= v <= hi, "randint-out-of-bounds", lambda: {"lo": lo, "hi": hi, "v": v})
        ctx.require(type(v + 0) is int or hasattr(v, "var"), "randint-not-int")


def h_wrapper_prims(ctx: Ctx, cfg):
    """choice / shuffle / pop_random / choice_weighted / random_bool on a genotype-backed source"""
    n = ctx.cint(1, cfg["genes"], "genes")
    genes = sym_genes(ctx, n)
    w = _wrapper(cfg["kind"], genes)
    for _ in range(cfg.get("warmup", 0)):  # move the read position
        w.randint(0, 1)
    m = ctx.cint(1, cfg["n"], "len")
    opts = [Lbl(i) for i in range(m)]
    prim = cfg["prim"]
    if prim == "choice":
        v = w.choice(list(opts))
        ctx.reached()
        ctx.require(any(v is o for o in opts), "choice-not-member")
    elif prim == "shuffle":
        lst = list(opts)
        out = w.shuffle(lst)
        ctx.reached()
        ctx.require(len(out) == m, "shuffle-length")
        for o in opts:
            ctx.require(sum(1 for x in out if x is o) == 1, "shuffle-not-permutation")
    elif prim == "pop_random":
        lst = list(opts)
        p = w.pop_random(lst)
        ctx.reached()
        ctx.require(any(p is o for o in opts) and len(lst) == m - 1 and not any(x is p for x in lst), "pop_random-wrong")
    elif prim == "random_bool":
        b = w.random_bool()
        ctx.reached()
        ctx.require(b is True or b is False, "random_bool-not-bool")
    else:
        weights = [ctx.cint(0, 2, "w") for _ in range(m)]
        if not any(weights):
            ctx.abandon("precondition:all-zero-weights")
        c = w.choice_weighted(list(opts), weights)
        ctx.reached()
        i = [k for k, o in enumerate(opts) if o is c]
        ctx.require(len(i) == 1, "choice_weighted-not-member")
        ctx.require(weights[i[0]] > 0, "choice_weighted-zero-weight-returned", lambda: {"weights": weights, "returned": i[0]})


def h_decider_random_int(ctx: Ctx, cfg):
    g = ctx.concrete(f1.grammar)
    lo, hi = ctx.pick(BOUNDS, "bounds")
    r = FreshRandom(ctx)
    if cfg["decider"] == "dsge":
        d = DSGE.DynamicSGEDecider(DSGE.Genotype(r, {}), g, max_depth=5)
    else:
        d = getattr(INI, cfg["decider"])(r, g, 5) if cfg["decider"] != "ProgressivelyTerminalDecider" else INI.ProgressivelyTerminalDecider(r, g)
    v = d.random_int(lo, hi)
    ctx.reached()
    ctx.note("bounds", [lo, hi])
    ctx.require(lo <= v <= hi, "decider-random_int-out-of-bounds", lambda: {"lo": lo, "hi": hi, "v": v})


class _FakeRandom:
    """random.Random replaced by an uninterpreted function of (seed, position): the k-th output
    of an instance is the symbol keyed (seed, k, request); two instances with equal seeds agree
    by construction, so the obligation checks that NativeRandomSource derives its whole stream
    from its private instance."""

    def __init__(self, owner, seed):
        self.owner = owner
        self.seed = seed
        self.k = 0

    def _next(self, lo, hi, concrete=False):
        key = (self.seed, self.k, lo, hi)
        self.k += 1
        t = self.owner.table
        if key not in t:
            t[key] = self.owner.ctx.cint(lo, hi, "uf") if concrete else self.owner.ctx.int(lo, hi, "uf")
        return t[key]

    def randint(self, a, b):
        return self._next(a, b)

    def random(self):
        return self._next(0, 3, True) / 4.0

    def normalvariate(self, m, s):
        return m + s * (self._next(0, 4, True) - 2)


class _FakeRandomModule:
    """stands in for the `random` module inside geneticengine.random.sources; module-level
    functions (the process-global RNG) return fresh unconstrained symbols, so code that leaks
    to global state is caught."""

    def __init__(self, ctx):
        self.ctx = ctx
        self.table = {}

    def Random(self, seed=None):
        return _FakeRandom(self, seed)

    def randint(self, a, b):
        return self.ctx.int(a, b, "global")

    def random(self):
        return self.ctx.cint(0, 3, "global") / 4.0

    def normalvariate(self, m, s):
        return m + s * (self.ctx.cint(0, 4, "global") - 2)


def h_same_seed(ctx: Ctx, cfg):
    orig = S.random
    S.random = _FakeRandomModule(ctx)
    try:
        seed = ctx.cint(0, 1, "seed")
        a, b = S.NativeRandomSource(seed), S.NativeRandomSource(seed)
        other = S.NativeRandomSource(seed + 1)
        for op in cfg["ops"]:
            if ctx.bool("interleave"):
                other.randint(0, 9)
            if op == "randint":
                x, y = a.randint(-4, 9), b.randint(-4, 9)
            elif op == "random_float":
                x, y = a.random_float(1.0, 3.0), b.random_float(1.0, 3.0)
            elif op == "choice":
                x, y = a.choice([1, 2, 3]), b.choice([1, 2, 3])
            elif op == "random_bool":
                x, y = a.random_bool(), b.random_bool()
            elif op == "normalvariate":
                x, y = a.normalvariate(0, 1), b.normalvariate(0, 1)
            else:
                x, y = a.shuffle([1, 2, 3]), b.shuffle([1, 2, 3])
            ctx.reached()
            ctx.require(x == y, "same-seed-streams-differ", lambda: {"op": op})
    finally:
        S.random = orig


def h_selftest_independent_draws(ctx: Ctx, cfg):
    """vacuity guard: two fresh draws CAN differ (this obligation must be refuted)"""
    r = FreshRandom(ctx)
    a, b = r.randint(0, 5), r.randint(0, 5)
    ctx.reached()
    ctx.require(a == b, "selftest-draws-can-differ")


# ------------------------------------------------------------------------------- engine B
def smt_random_float(cfg):
    """random_float of each source: interpreted from the current source into z3 Int/Real terms
    (float arithmetic as exact reals); claim: min <= result <= max whenever min <= max"""
    import time

    import z3

    from vf.engine.py2smt import Interp

    kind = cfg["kind"]
    lo, hi = z3.Real("min"), z3.Real("max")
    pre = [lo <= hi]
    it = Interp()
    if kind == "native":
        r = z3.Real("r")
        pre += [r >= 0, r < 1]

        class _R:
            def random(self):
                return r

            random._py2smt_native = True

        obj = S.NativeRandomSource.__new__(S.NativeRandomSource)
        obj.random = _R()
        fn = S.NativeRandomSource.random_float
    else:
        n = cfg.get("genes", 2)
        genes = [z3.Int(f"g{i}") for i in range(n)]
        pre += [g >= 0 for g in genes]
        if kind == "ge":
            obj, fn = GE.ListWrapper(list(genes)), GE.ListWrapper.random_float
        elif kind == "sge":
            obj, fn = SGE.StructuredListWrapper({SGE.INFRASTRUCTURE_KEY: list(genes)}), SGE.StructuredListWrapper.random_float
        else:
            obj, fn = STACK.ListWrapper(list(genes)), STACK.ListWrapper.random_float
            k = z3.Int("k")
            pre += [k >= 1]
            it.pow_stub = lambda b, e: k  # contract of pow on integers b >= 1, e >= 1: an integer >= 1
    outs = it.run(fn, [lo, hi], self_obj=obj)
    t0 = time.time()
    nq = 0
    for pc, res in outs:
        s_ = z3.Solver()
        s_.set("timeout", 60000)
        s_.add(*pre, *pc, z3.Or(res < lo, res > hi))
        r_ = str(s_.check())
        nq += 1
        if r_ == "sat":
            m = s_.model()
            return {"verdict": "refuted", "clause": "random_float-out-of-bounds", "model": {"kind": kind, "min": str(m.eval(lo, True)), "max": str(m.eval(hi, True)), "model": str(m)[:300]}, "queries": nq, "unsat": nq - 1, "sat": 1, "unknown": 0, "solver_s": round(time.time() - t0, 2), "encoded": fn.__qualname__}
        if r_ != "unsat":
            return {"verdict": "inconclusive", "message": "z3: " + r_, "queries": nq, "solver_s": round(time.time() - t0, 2)}
    # translator validation on concrete inputs
    import random as _r

    rng = _r.Random(0)
    val = 0
    if kind != "native":
        for _ in range(50):
            gs = [rng.choice([0, 1, 2, 7, 10**6, rng.randint(0, 10**9)]) for _ in range(cfg.get("genes", 2))]
            a = rng.choice([-3.0, 0.0, 1.5])
            b = a + rng.choice([0.0, 0.5, 10.0])
            real_obj = {"ge": lambda: GE.ListWrapper(list(gs)), "sge": lambda: SGE.StructuredListWrapper({SGE.INFRASTRUCTURE_KEY: list(gs)}), "stack": lambda: STACK.ListWrapper(list(gs))}[kind]()
            v = real_obj.random_float(a, b)
            if not (a <= v <= b):
                return {"verdict": "harness_error", "message": f"real function out of bounds on concrete input {gs} {a} {b}: {v}"}
            val += 1
    return {"verdict": "confirmed", "queries": nq, "unsat": nq, "sat": 0, "unknown": 0, "solver_s": round(time.time() - t0, 2), "validated": val, "encoded": fn.__qualname__ + " (current source; floats as exact reals)"}


def smt_replay_random_float(cfg, model):
    from fractions import Fraction

    a, b = float(Fraction(model["min"])), float(Fraction(model["max"]))
    kind = model["kind"]
    bad = None
    import itertools

    for gs in itertools.product([0, 1, 2, 3, 10, 10**6], repeat=cfg.get("genes", 2)):
        if kind == "native":
            break
        obj = {"ge": lambda: GE.ListWrapper(list(gs)), "sge": lambda: SGE.StructuredListWrapper({SGE.INFRASTRUCTURE_KEY: list(gs)}), "stack": lambda: STACK.ListWrapper(list(gs))}[kind]()
        v = obj.random_float(a, b)
        if not (a <= v <= b):
            bad = {"genes": list(gs), "min": a, "max": b, "value": v}
            break
    if kind == "native":
        for seed in range(200):
            v = S.NativeRandomSource(seed).random_float(a, b)
            if not (a <= v <= b):
                bad = {"seed": seed, "min": a, "max": b, "value": v}
                break
    return {"ok": bad is None, "clause": None if bad is None else "random_float-out-of-bounds", "detail": bad}


SMT = {"random_float": smt_random_float}
SMT_REPLAY = {"random_float": smt_replay_random_float}

HARNESSES = {f.__name__[2:]: f for f in list(globals().values()) if callable(f) and getattr(f, "__name__", "").startswith("h_")}


def obligations(tier: str):
    T = tier == "thorough"
    obs = [
        Ob("selftest_independent_draws", {}, expect="refute", timeout=30),
        Ob("choice", {"n": 5 if T else 4}),
        Ob("choice_weighted", {"n": 4 if T else 3, "wmax": 50 if T else 3}, timeout=300 if T else 90),
        Ob("choice_weighted_fractional", {"n": 4 if T else 3}, timeout=600 if T else 150),
        Ob("choice_weighted_fractional", {"n": 3, "kind": "ge"}, name="choice_weighted_fractional_ge", timeout=600 if T else 150),
        Ob("shuffle", {"n": 5 if T else 4}, timeout=300 if T else 90),
        Ob("pop_random", {"n": 5 if T else 4}),
        Ob("random_bool", {}),
        Ob("same_seed", {"ops": ["randint", "choice", "random_float"]}, name="same_seed_a", timeout=600 if T else 100),
        Ob("same_seed", {"ops": ["shuffle", "random_bool", "normalvariate"]}, name="same_seed_b", timeout=600 if T else 100),
        Ob("same_seed", {"ops": ["random_bool", "randint", "randint", "choice"]}, name="same_seed_c", timeout=600 if T else 100),
    ]
    import itertools

    for perm in itertools.permutations(range(3)):
        obs.append(Ob("shuffle_all_perms", {"n": 3, "target": list(perm)}, name=f"shuffle_reaches_{''.join(map(str, perm))}", expect="refute", timeout=30, twin=False))
    for kind in ("ge", "stack", "sge"):
        obs.append(Ob("wrapper_randint", {"kind": kind, "genes": 4 if T else 3, "calls": 4 if T else 3}, name=f"wrapper_randint_{kind}", timeout=300 if T else 90))
        for prim in ("choice", "shuffle", "pop_random", "random_bool", "choice_weighted"):
            obs.append(Ob("wrapper_prims", {"kind": kind, "prim": prim, "genes": 3 if T else 2, "n": 4 if T else 3, "warmup": 1}, name=f"wrapper_{prim}_{kind}", timeout=600 if T else 100))
    for kind in ("native", "ge", "sge", "stack"):
        obs.append(Ob("random_float", {"kind": kind, "genes": 2}, name=f"engineB_random_float_{kind}", kind="smt", timeout=200, twin=False, smoke=0))
    for d in ("MaxDepthDecider", "FullDecider", "PositionIndependentGrowDecider", "ProgressivelyTerminalDecider", "dsge"):
        obs.append(Ob("decider_random_int", {"decider": d}, name=f"decider_random_int_{d}", timeout=300 if T else 90))
    return obs
