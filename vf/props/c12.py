"""C12 - the reported best individual really is the best one evaluated."""
from __future__ import annotations

from geneticengine.algorithms.gp.gp import GeneticProgramming
from geneticengine.algorithms.hill_climbing import HC
from geneticengine.algorithms.one_plus_one import OnePlusOne
from geneticengine.algorithms.random_search import RandomSearch
from geneticengine.evaluation.budget import EvaluationBudget
from geneticengine.evaluation.recorder import SearchRecorder
from geneticengine.evaluation.sequential import SequentialEvaluator
from geneticengine.evaluation.tracker import MultiObjectiveProgressTracker, SingleObjectiveProgressTracker
from geneticengine.problems import MultiObjectiveProblem, SingleObjectiveProblem
from geneticengine.solutions.individual import Individual

from vf.engine.ob import Ob
from vf.engine.popfix import TABLES, SymFitness, TokRep
from vf.engine.sym import Ctx, FreshRandom

PROPERTY = "C12"
FUNCTIONS = [
    "evaluation.tracker.SingleObjectiveProgressTracker.post_process/evaluate/get_best_individual",
    "evaluation.tracker.MultiObjectiveProgressTracker.evaluate/is_dominated/get_best_individuals",
    "problems.Problem.is_better, SingleObjectiveProblem.evaluate, MultiObjectiveProblem.evaluate (default aggregate)",
    "algorithms.random_search / hill_climbing / one_plus_one / gp.gp search() return value",
]
ASSUMPTIONS = [
    "fitness values: one symbolic selector per program into a table of 3-4 distinct floats (realises every weak order incl. all tie patterns); magnitudes, NaN, infinities outside",
    "histories of 4 (thorough 6) evaluations, fed singly and in batches; searches with budgets <= 4 (thorough 6) on an opaque-token representation",
]


class Rec(SearchRecorder):
    def __init__(self):
        self.log = []

    def register(self, tracker, individual, problem, is_best):
        self.log.append((individual.genotype.k, is_best))


def _agg(v, minimize):
    return -v if minimize else v


def h_single_tracker(ctx: Ctx, cfg):
    minimize = ctx.bool("minimize")
    fit = SymFitness(ctx, TABLES[cfg.get("table", 3)])
    p = SingleObjectiveProblem(fit, minimize=minimize)
    rep = TokRep()
    rec = Rec()
    tr = SingleObjectiveProgressTracker(p, SequentialEvaluator(), [rec])
    inds = [Individual(rep.create_genotype(None), rep) for _ in range(cfg["n"])]
    seen = []
    k = 0
    while k < len(inds):
        batch = inds[k : k + (ctx.cint(1, cfg.get("batch", 1), "batch") if cfg.get("batch", 1) > 1 else 1)]
        tr.evaluate(batch)
        k += len(batch)
        seen.extend(batch)
        best = tr.get_best_individual()
        ctx.reached()
        ctx.require(any(best is s for s in seen), "best:reported-best-was-never-evaluated")
        bv = _agg(fit.value_of(best.genotype), minimize)
        for s in seen:
            ctx.require(bv >= _agg(fit.value_of(s.genotype), minimize), "best:reported-best-worse-than-an-evaluated-individual", lambda: {"best": best.genotype.k, "other": s.genotype.k, "minimize": minimize, "values": [fit.value_of(x.genotype) for x in seen]})
    # recorder flags: new best exactly when first or strictly better than all earlier ones
    ctx.require([g for g, _ in rec.log] == [i.genotype.k for i in inds], "best:recorder-not-told-about-every-individual-in-order")
    for j, (g, flag) in enumerate(rec.log):
        cur = _agg(fit.value_of(inds[j].genotype), minimize)
        exp = j == 0 or all(cur > _agg(fit.value_of(inds[q].genotype), minimize) for q in range(j))
        ctx.require(flag == exp, "best:is_best-flag-wrong", lambda: {"index": j, "flag": flag, "expected": exp, "minimize": minimize, "values": [fit.value_of(x.genotype) for x in inds]})


def h_multi_tracker(ctx: Ctx, cfg):
    nobj = cfg["objectives"]
    minimize = [ctx.bool("minimize") for _ in range(nobj)]
    fit = SymFitness(ctx, TABLES[cfg.get("table", 3)], components=nobj)
    p = MultiObjectiveProblem(list(minimize), fit) if not cfg.get("bool_minimize") else MultiObjectiveProblem(minimize[0], fit)
    if cfg.get("bool_minimize"):
        minimize = [minimize[0]] * nobj
    rep = TokRep()
    rec = Rec()
    tr = MultiObjectiveProgressTracker(p, SequentialEvaluator(), [rec])
    inds = [Individual(rep.create_genotype(None), rep) for _ in range(cfg["n"])]

    def agg(tok):
        return sum(-v if m else v for v, m in zip(fit.value_of(tok), minimize))

    for j, ind in enumerate(inds):
        tr.evaluate([ind])
        ctx.reached()
        bests = tr.get_best_individuals()
        ctx.require(len(bests) >= 1, "best:no-best-reported")
        top = max(agg(i.genotype) for i in inds[: j + 1])
        for b in bests:
            ctx.require(any(b is s for s in inds[: j + 1]), "best:reported-best-was-never-evaluated")
            ctx.require(agg(b.genotype) == top, "best:reported-multiobjective-best-below-best-aggregate-seen", lambda: {"best": b.genotype.k, "aggregate": agg(b.genotype), "top": top})


def h_search(ctx: Ctx, cfg):
    minimize = ctx.bool("minimize")
    fit = SymFitness(ctx, TABLES[cfg.get("table", 3)])
    p = SingleObjectiveProblem(fit, minimize=minimize)
    rep = TokRep()
    r = FreshRandom(ctx)
    budget = EvaluationBudget(cfg["budget"])
    alg = cfg["alg"]
    if alg == "rs":
        s = RandomSearch(p, budget, rep, r)
    elif alg == "hc":
        s = HC(p, budget, rep, r, number_of_mutations=cfg.get("neigh", 2))
    elif alg == "1p1":
        s = OnePlusOne(p, budget, rep, r)
    else:
        from geneticengine.algorithms.gp.operators.combinators import SequenceStep
        from geneticengine.algorithms.gp.operators.mutation import GenericMutationStep
        from geneticengine.algorithms.gp.operators.selection import TournamentSelection

        step = SequenceStep(TournamentSelection(2), GenericMutationStep(1)) if cfg.get("tournament") else GenericMutationStep(1)
        s = GeneticProgramming(p, budget, rep, r, population_size=cfg.get("pop", 2), step=step)
    best = s.search()
    ctx.reached()
    ctx.require(best is s.tracker.get_best_individual(), "best:search-does-not-return-the-tracker-best")
    evaluated = set(fit.log)
    ctx.require(best.genotype.k in evaluated, "best:returned-individual-was-never-evaluated")
    bv = _agg(fit.value_of(best.genotype), minimize)
    for k in evaluated:
        ctx.require(bv >= _agg(fit.memo[k], minimize), "best:search-result-worse-than-an-evaluated-individual", lambda: {"returned": best.genotype.k, "other": k, "minimize": minimize, "values": dict(fit.memo)})
    ctx.require(best.get_fitness(p).fitness_components[0] == fit.value_of(best.genotype), "best:returned-fitness-not-the-program's")


HARNESSES = {"single_tracker": h_single_tracker, "multi_tracker": h_multi_tracker, "search": h_search}


def obligations(tier: str):
    T = tier == "thorough"
    obs = []

    def add(h, name, timeout=100, **cfg):
        obs.append(Ob(h, cfg, name=name, timeout=timeout * (8 if T else 1)))

    add("single_tracker", "single_tracker_singly", n=5 if T else 4, table=4 if T else 3)
    add("single_tracker", "single_tracker_batches", n=4 if T else 3, batch=3 if T else 2)
    add("single_tracker", "single_tracker_infinite_fitness", n=3 if not T else 4, table="inf")
    add("multi_tracker", "multi_tracker_1obj_infinite_fitness", objectives=1, n=3, table="inf")
    add("multi_tracker", "multi_tracker_2obj", objectives=2, n=3, table=3 if T else 2)
    add("multi_tracker", "multi_tracker_1obj", objectives=1, n=5 if T else 4)
    add("multi_tracker", "multi_tracker_bool_minimize", objectives=2, n=3, bool_minimize=True, table=3 if T else 2)
    if T:
        add("multi_tracker", "multi_tracker_3obj", objectives=3, n=3, table=2)
    for alg in ("rs", "hc", "1p1"):
        add("search", f"search_{alg}", alg=alg, budget=5 if T else 4, neigh=2)
    add("search", "search_gp", alg="gp", budget=4 if T else 3, pop=2, table=3 if T else 2)  # budget 5 x table 3: > 12000 paths, not exhausted in 2000 s
    if T:
        add("search", "search_gp_tournament", alg="gp", budget=3, pop=2, table=2, tournament=True)
    return obs
