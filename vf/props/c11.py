"""C11 - per-node size and depth metadata matches the actual program structure."""
from __future__ import annotations

import copy

from geneticengine.representations.tree.utils import relabel_nodes_of_trees

from vf.engine import synth
from vf.engine.ob import Ob
from vf.engine.sym import Ctx
from vf.oracles import metadata as OM
from vf.oracles import typing as OT

PROPERTY = "C11"
FUNCTIONS = [
    "tree.utils.relabel_nodes / relabel_nodes_of_trees, grammar.utils.get_arguments",
    "tree.initializations.wrap_result / create_node (labels at creation), treebased.mutate / tree_crossover (labels after variation)",
]
ASSUMPTIONS = [
    "reference recurrences in vf/oracles/metadata.py (terminal = 0/0/0, inner node nodes=1+sum, distance=max(1,1+max), weighted=sum+distance, lists transparent); default counting mode only (expansion_depthing=False)",
    "grammars f1, f2 (nodes inside lists), f3 (tuple / union), f4; depth <= 3; one variation step",
]

ATTRS = ("gengy_nodes", "gengy_distance_to_term", "gengy_weighted_nodes")


def check_metadata(ctx: Ctx, fx, g, p, stage: str):
    ctx.reached()
    classes = synth.registered_classes(fx)
    for node in OM.all_nodes(p):
        n, d, w = OM.measure(node)
        name = type(node).__name__
        ctx.require(getattr(node, "gengy_labeled", False), "metadata:node-not-labelled", {"stage": stage, "node": name})
        got = (node.gengy_nodes, node.gengy_distance_to_term, node.gengy_weighted_nodes)
        ctx.require(got[0] == n, "metadata:gengy_nodes-wrong", lambda: {"stage": stage, "node": OT.show(node), "found": got[0], "expected": n})
        ctx.require(got[1] == d, "metadata:gengy_distance_to_term-wrong", lambda: {"stage": stage, "node": OT.show(node), "found": got[1], "expected": d})
        ctx.require(got[2] == w, "metadata:gengy_weighted_nodes-wrong", lambda: {"stage": stage, "node": OT.show(node), "found": got[2], "expected": w})
        desc = OM.descendants(node)
        ttw = node.gengy_types_this_way
        for k in classes:
            exp = [x for x in desc if type(x) is k]
            found = list(ttw.get(k, [])) if hasattr(ttw, "get") else []
            ok = len(exp) == len(found) and all(any(f is e for f in found) for e in exp)
            ctx.require(ok, "metadata:gengy_types_this_way-wrong", lambda: {"stage": stage, "node": OT.show(node), "class": k.__name__, "found": len(found), "expected": len(exp)})
    # history independence: relabelling a stripped clone from the root gives the same labels
    clone = copy.deepcopy(p)
    for node in OM.all_nodes(clone) + [x for x in _lists(clone)]:
        for a in ("gengy_labeled",) + ATTRS + ("gengy_types_this_way",):
            if hasattr(node, a):
                try:
                    delattr(node, a)
                except AttributeError:
                    pass
    relabel_nodes_of_trees(clone, g)
    for a_node, b_node in zip(OM.all_nodes(p), OM.all_nodes(clone)):
        for a in ATTRS:
            ctx.require(getattr(a_node, a) == getattr(b_node, a, None), "metadata:labels-depend-on-history", lambda: {"stage": stage, "attr": a, "node": OT.show(a_node), "carried": getattr(a_node, a), "fresh": getattr(b_node, a, None)})


def _lists(v, out=None):
    if out is None:
        out = []
    if isinstance(v, list):
        out.append(v)
        for e in v:
            _lists(e, out)
    elif isinstance(v, tuple):
        for e in v:
            _lists(e, out)
    elif OM.is_node(v):
        for c in OM._children(v):
            _lists(c, out)
    return out


def h_pipeline(ctx: Ctx, cfg):
    synth.pipeline(ctx, cfg, check_metadata)


HARNESSES = {"pipeline": h_pipeline}


def obligations(tier: str):
    T = tier == "thorough"
    obs = []

    def add(name, timeout=100, **cfg):
        cfg.setdefault("fuel", 200)
        cfg.setdefault("ops", [])
        obs.append(Ob("pipeline", cfg, name=name, timeout=timeout * (8 if T else 1), path_timeout=60))

    for dec in ("grow", "full", "pi", "pt"):
        for fxn in ("f1", "f2", "f3", "f4"):
            if dec == "pt":
                add(f"tree_pt_{fxn}_create", fixture=fxn, rep="tree", decider="pt", fuel=14 if T else 10)
            elif T or dec == "grow" or fxn in ("f1", "f2"):
                md = {"f1": 3, "f2": 2, "f3": 3, "f4": 3}[fxn] + (1 if T and fxn in ("f2", "f4") else 0)
                add(f"tree_{dec}_{fxn}_create", fixture=fxn, rep="tree", decider=dec, max_depth=md)
    for fxn in ("f1", "f2", "f3"):
        add(f"tree_grow_{fxn}_mutate", fixture=fxn, rep="tree", decider="grow", max_depth=2, ops=["mutate"])
        if T and fxn != "f2":  # f2 (lists): 570 paths without a failing one, not exhausted in 2000 s
            add(f"tree_grow_{fxn}_crossover", fixture=fxn, rep="tree", decider="grow", max_depth=2, ops=["crossover"])
    add("tree_grow_f14_create", fixture="f14", rep="tree", decider="grow", max_depth=2, timeout=200)
    add("tree_grow_f14_mutate", fixture="f14", rep="tree", decider="grow", max_depth=2, ops=["mutate"], timeout=300) if T else None
    add("tree_grow_f2blk_create", fixture="f2", grammar_fn="grammar_blk", rep="tree", decider="grow", max_depth=3, timeout=200)
    add("tree_full_f2blk_create", fixture="f2", grammar_fn="grammar_blk", rep="tree", decider="full", max_depth=3, timeout=200)
    # a list threaded through nested productions by a dependent refinement (ctx + [name])
    add("tree_grow_f5ctx_create", fixture="f5ctx", rep="tree", decider="grow", max_depth=3, timeout=200) if T else None
    add("tree_grow_f15_create", fixture="f15", rep="tree", decider="grow", max_depth=3, timeout=200)
    add("ge_f15_create", fixture="f15", rep="ge", decider="grow", max_depth=3, gene_length=6, timeout=200)
    add("tree_grow_f11_concrete_start_crossover", fixture="f11", rep="tree", decider="grow", max_depth=3, ops=["crossover"], timeout=400)
    add("tree_grow_f0_crossover", fixture="f0", rep="tree", decider="grow", max_depth=2, ops=["crossover"])
    if T:
        add("tree_grow_f2l_crossover", fixture="f2", grammar_fn="grammar_lst", rep="tree", decider="grow", max_depth=2, ops=["crossover"])
    for rep in ("ge", "sge", "dsge"):
        gl = 6 if rep == "ge" else 2
        add(f"{rep}_f1_create", fixture="f1", rep=rep, decider="grow", max_depth=3, gene_length=gl)
        add(f"{rep}_f2_create", fixture="f2", rep=rep, decider="grow", max_depth=2 if rep != "dsge" else 3, gene_length=gl)
    add("stack_f1_create", fixture="f1", rep="stack", gene_length=3 if not T else 4, failures_limit=1, gene_fuel=8 if not T else 12, timeout=150)
    return [o for o in obs if o is not None]
