"""C05 - grammar analysis is exact: productions, minimum depths, recursion, reachability."""
from __future__ import annotations

import importlib

from geneticengine.representations.tree import initializations as INI
from geneticengine.representations.tree.treebased import random_node

from vf.engine import synth
from vf.engine.ob import Ob
from vf.engine.sym import Ctx, FreshRandom
from vf.oracles import grammar as OG
from vf.oracles import recomb as OR
from vf.oracles import typing as OT

PROPERTY = "C05"
FUNCTIONS = [
    "grammar.grammar.Grammar.register_type / register_alternative / preprocess / get_distance_to_terminal / usable_grammar, extract_grammar",
    "grammar.utils.is_abstract / get_arguments / is_terminal; tree.initializations.create_node driven by a free (unbounded-choice) decider",
]
ASSUMPTIONS = [
    "the quantifier over class hierarchies is a fixed corpus (f0-f7 variants + the grammars shipped in geml.grammars that import offline); classes cannot be symbolic",
    "inner quantifiers are the solver's: a harness-side decider that may pick ANY alternative drives the real create_node with symbolic draws; depth >= reported minimum on every path up to D = min+2, a witness path with depth == reported minimum, a witness of self-containment for every symbol reported recursive and absence up to D for the others",
    "the oracle's own least-fixpoint analysis (vf/oracles/grammar.py) is compared with the reported tables for every symbol (concrete comparison)",
    "both counting modes for the table comparison (expansion_depthing=False/True); the solver-backed derivation obligations use the default mode",
]


class FreeDecider(INI.BaseDecider):
    """may choose any alternative (no depth filter); the exploration depth is bounded by the harness"""

    def __init__(self, random, grammar, ctx, limit):
        super().__init__(random, grammar)
        self.ctx = ctx
        self.limit = limit
        self.expanded = []  # (symbol, number of enclosing productions) of every expansion made

    def choose_production_alternatives(self, ty, alternatives, ctx):
        if ctx.depth >= self.limit:
            self.ctx.abandon("depth-bound")
        self.expanded.append((ty, ctx.depth))
        return self.random.choice(list(alternatives))


def _fx(cfg):
    fx = synth.fixture(cfg["fixture"])
    if cfg.get("variant"):
        v = fx.VARIANTS[cfg["variant"]]
        return v, getattr(fx, cfg["variant"])
    return fx, getattr(fx, cfg.get("grammar_fn", "grammar"))


def _sym(fx, name):
    return [c for c in OG.Analysis(fx.CLASSES, fx.START).symbols if c.__name__ == name][0]


def _depth_clause(reported, s, exact, nonempty):
    """the one listed inexactness (a list that may be empty is charged its element's depth) gets its
    own clause, so that any OTHER difference in a minimum depth is still reported"""
    if reported == nonempty.min_depth.get(s) and reported != exact.min_depth.get(s):
        return "analysis:minimum-depth-conservative-for-possibly-empty-list"
    return "analysis:minimum-depth-differs-from-shallowest-derivation"


def h_tables(ctx: Ctx, cfg):
    """productions, minimum depths, recursive set, reachable symbols vs the oracle (concrete)"""
    fx, gfn = _fx(cfg)

    exp = bool(cfg.get("expansion_depthing"))

    def work():
        g = gfn(expansion_depthing=True) if exp else gfn()
        a = OG.Analysis(fx.CLASSES, fx.START, expansion_depthing=exp)
        return g, a, OG.Analysis(fx.CLASSES, fx.START, expansion_depthing=exp, lists_transparent_nonempty=True)

    g, a, a_ne = ctx.concrete(work)
    ctx.reached()
    for s in a.symbols:
        if OT.is_abstract(s):
            exp = [c.__name__ for c in a.productions(s)]
            got = [c.__name__ for c in g.alternatives.get(s, [])]
            ctx.require(sorted(exp) == sorted(got), "analysis:productions-differ-from-direct-subtypes", {"symbol": s.__name__, "reported": got, "expected": exp})
        ctx.require(s in g.all_nodes, "analysis:reachable-symbol-missing", {"symbol": s.__name__})
        rd = g.distanceToTerminal.get(s)
        ctx.require(rd == a.min_depth[s], _depth_clause(rd, s, a, a_ne), {"symbol": s.__name__, "reported": rd, "shallowest": a.min_depth[s]})
        ctx.require((s in g.recursive_prods) == (s in a.recursive), "analysis:recursive-set-wrong", {"symbol": s.__name__, "reported": s in g.recursive_prods, "derives_itself": s in a.recursive})
    gm = g.get_min_tree_depth()
    gclause = _depth_clause(gm, fx.START, a, a_ne)  # the start symbol inherits the listed inexactness
    ctx.require(gm == a.min_depth[fx.START], gclause if gclause.endswith("possibly-empty-list") else "analysis:grammar-minimum-depth-wrong", {"reported": gm, "shallowest": a.min_depth[fx.START]})


def h_usable(ctx: Ctx, cfg):
    fx, gfn = _fx(cfg)

    def work():
        g = gfn()
        a = OG.Analysis(fx.CLASSES, fx.START)
        try:
            u = g.usable_grammar()
        except Exception as e:  # noqa
            return g, a, e
        return g, a, u

    g, a, u = ctx.concrete(work)
    ctx.reached()
    ctx.require(not isinstance(u, Exception), "analysis:usable_grammar-raises", lambda: {"error": type(u).__name__ + ": " + str(u)[:100]})
    got = sorted(c.__name__ for c in u.all_nodes if isinstance(c, type) and c not in OT.BASE)
    exp = sorted(c.__name__ for c in a.symbols)
    ctx.require(got == exp, "analysis:usable_grammar-symbols-differ-from-reachable-set", {"reported": got, "reachable": exp})
    for s in a.symbols:
        if OT.is_abstract(s):
            ctx.require(sorted(c.__name__ for c in u.alternatives.get(s, [])) == sorted(c.__name__ for c in a.productions(s)), "analysis:usable_grammar-productions-differ", {"symbol": s.__name__})
        ctx.require(u.distanceToTerminal.get(s) == g.distanceToTerminal.get(s), "analysis:usable_grammar-depths-differ", {"symbol": s.__name__})


def _create_from(ctx, cfg, symbol_name, limit):
    fx, gfn = _fx(cfg)
    g = ctx.concrete(gfn)
    s = _sym(fx, symbol_name)
    r = FreshRandom(ctx)
    d = FreeDecider(r, g, ctx, limit)
    try:
        p = random_node(r, g, s, d)
    except synth.LIBRARY_ERRORS:
        ctx.abandon("creation-failed")
    ctx.note("expanded", [(getattr(t, "__name__", "?"), dd) for t, dd in d.expanded])
    _create_from.last_decider = d
    return fx, g, s, p


def h_min_depth_lower_bound(ctx: Ctx, cfg):
    """for all derivations from the symbol up to depth D: depth >= reported minimum"""
    fx, gfn = _fx(cfg)
    g0 = ctx.concrete(gfn)
    s0 = _sym(fx, cfg["symbol"])
    rep = g0.distanceToTerminal[s0]
    fx, g, s, p = _create_from(ctx, cfg, cfg["symbol"], rep + cfg.get("extra", 2))
    ctx.reached()
    d = OT.depth(p)
    ctx.require(d >= rep, "analysis:program-shallower-than-reported-minimum-depth", lambda: {"symbol": s.__name__, "reported": rep, "depth": d, "program": OT.show(p)})


def h_min_depth_witness(ctx: Ctx, cfg):
    """there is a derivation whose depth equals the reported minimum (expect: witness found)"""
    fx, gfn = _fx(cfg)
    g0 = ctx.concrete(gfn)
    s0 = _sym(fx, cfg["symbol"])
    rep = g0.distanceToTerminal[s0]
    fx, g, s, p = _create_from(ctx, cfg, cfg["symbol"], rep + 1)
    ctx.reached()
    ctx.require(OT.depth(p) != rep, "witness:program-of-exactly-the-reported-minimum-depth", lambda: {"symbol": s.__name__, "reported": rep, "program": OT.show(p)})


def h_recursion(ctx: Ctx, cfg):
    """X is recursive iff some derivation from X expands X again below the root (abstract X: the
    decider is asked for a production of X at nesting >= 1; concrete X: a proper sub-node of exactly
    class X is built).  Reported recursive => such a witness exists (expect refute); reported
    non-recursive => none up to depth D (expect confirm)."""
    fx, g, s, p = _create_from(ctx, cfg, cfg["symbol"], cfg["D"])
    ctx.reached()
    d = _create_from.last_decider
    if OT.is_abstract(s):
        again = [dd for t, dd in d.expanded if t is s and dd >= 1]
    else:
        again = [n for n in OR.subtrees(p) if n is not p and type(n) is s]
    ctx.require(not again, "witness:symbol-derives-a-program-containing-itself", lambda: {"symbol": s.__name__, "program": OT.show(p)})


def h_shipped(ctx: Ctx, cfg):
    """the grammars shipped in examples/, tests/ and geml/ (imported, not copied): productions,
    minimum depths, recursive set and usable sub-grammar vs the oracle, for every discovered one"""
    from geneticengine.grammar.grammar import extract_grammar

    from vf.fixtures import shipped

    def work():
        found, skipped = shipped.discover(tuple(cfg["roots"]))
        out = []
        for label, classes, start in found:
            try:
                g = extract_grammar(list(classes), start)
            except Exception as e:  # noqa
                out.append((label, None, None, None, type(e).__name__))
                continue
            a = OG.Analysis(classes, start)
            try:
                u = g.usable_grammar()
            except Exception as e:  # noqa
                u = e
            out.append((label, g, a, u, OG.Analysis(classes, start, lists_transparent_nonempty=True)))
        return out, skipped

    res, skipped = ctx.concrete(work)
    ctx.note("grammars", len(res))
    ctx.note("skipped", [s[0] for s in skipped])
    ctx.require(len(res) >= cfg.get("at_least", 1), "oracle:no-shipped-grammar-discovered", {"skipped": skipped[:5]})
    for label, g, a, u, a_ne in res:
        if g is None:
            continue  # the example does not build a grammar on its own (e.g. needs runtime data)
        ctx.reached()
        for s in a.symbols:
            if OT.is_abstract(s):
                exp = sorted(c.__name__ for c in a.productions(s))
                got = sorted(c.__name__ for c in g.alternatives.get(s, []))
                ctx.require(exp == got, "analysis:productions-differ-from-direct-subtypes", {"grammar": label, "symbol": s.__name__, "reported": got, "expected": exp})
            rd = g.distanceToTerminal.get(s)
            ctx.require(rd == a.min_depth[s], _depth_clause(rd, s, a, a_ne), {"grammar": label, "symbol": s.__name__, "reported": rd, "shallowest": a.min_depth[s]})
            ctx.require((s in g.recursive_prods) == (s in a.recursive), "analysis:recursive-set-wrong", {"grammar": label, "symbol": s.__name__, "reported": s in g.recursive_prods})
        ctx.require(not isinstance(u, Exception), "analysis:usable_grammar-raises", lambda: {"grammar": label, "error": type(u).__name__ + ": " + str(u)[:100]})
        got = sorted(c.__name__ for c in u.all_nodes if isinstance(c, type) and c not in OT.BASE)
        exp = sorted(c.__name__ for c in a.symbols)
        extra = [c for c in u.all_nodes if isinstance(c, type) and c not in OT.BASE and c not in a.symbols]
        only_ancestors = bool(extra) and set(exp) <= set(got) and all(any(issubclass(r, c) for r in a.symbols) for c in extra)
        clause = "analysis:usable_grammar-keeps-unreachable-ancestor-of-a-reachable-symbol" if only_ancestors else "analysis:usable_grammar-symbols-differ-from-reachable-set"
        ctx.require(got == exp, clause, {"grammar": label, "reported": got, "reachable": exp})


def h_family(ctx: Ctx, cfg):
    """generated family of hierarchies (plain enumeration of the outer quantifier): productions,
    minimum depths (both counting modes), recursive set and usable sub-grammar vs the oracle"""
    from geneticengine.grammar.grammar import extract_grammar

    from vf.fixtures import family

    def work():
        bad = []
        n = 0
        for label, classes, start in family.hierarchies(stride=cfg.get("stride", 1)):
            n += 1
            for exp in (False, True):
                try:
                    g = extract_grammar(list(classes), start, exp)
                except Exception as e:  # noqa
                    bad.append(("analysis:extract_grammar-raises", {"grammar": label, "error": type(e).__name__ + ": " + str(e)[:80]}))
                    continue
                a = OG.Analysis(classes, start, expansion_depthing=exp)
                a_ne = OG.Analysis(classes, start, expansion_depthing=exp, lists_transparent_nonempty=True)
                for s in a.symbols:
                    rd = g.distanceToTerminal.get(s)
                    if rd != a.min_depth[s]:
                        bad.append((_depth_clause(rd, s, a, a_ne), {"grammar": label, "expansion_depthing": exp, "symbol": s.__name__, "reported": rd, "shallowest": a.min_depth[s]}))
                    if (s in g.recursive_prods) != (s in a.recursive):
                        bad.append(("analysis:recursive-set-wrong", {"grammar": label, "symbol": s.__name__, "reported": s in g.recursive_prods}))
                    if OT.is_abstract(s) and sorted(c.__name__ for c in g.alternatives.get(s, [])) != sorted(c.__name__ for c in a.productions(s)):
                        bad.append(("analysis:productions-differ-from-direct-subtypes", {"grammar": label, "symbol": s.__name__, "reported": [c.__name__ for c in g.alternatives.get(s, [])]}))
                try:
                    u = g.usable_grammar()
                    got = sorted(c.__name__ for c in u.all_nodes if isinstance(c, type) and c not in OT.BASE)
                    if got != sorted(c.__name__ for c in a.symbols):
                        bad.append(("analysis:usable_grammar-symbols-differ-from-reachable-set", {"grammar": label, "reported": got}))
                except Exception as e:  # noqa
                    bad.append(("analysis:usable_grammar-raises", {"grammar": label, "error": type(e).__name__}))
        return n, bad

    n, bad = ctx.concrete(work)
    ctx.note("hierarchies", n)
    ctx.reached()
    for clause, detail in bad:
        ctx.require(False, clause, detail)


HARNESSES = {"family": h_family, "shipped": h_shipped, "tables": h_tables, "usable": h_usable, "min_depth_lower_bound": h_min_depth_lower_bound, "min_depth_witness": h_min_depth_witness, "recursion": h_recursion}

CORPUS = [("f16", None), ("f16", "grammar_neg"), ("f15", None), ("f14", None), ("f11", None), ("f12", None), ("f13", None), ("f9", None), ("f10", None), ("f3n", None), ("f8", None), ("f0", None), ("f1", None), ("f2", None), ("f2b", None), ("f3", None), ("f3b", None), ("f4", None), ("f5", None), ("f5ctx", None), ("f6", None),
          ("f7", "grammar_tuple"), ("f7", "grammar_tuple2"), ("f7", "grammar_union"), ("f7", "grammar_list"), ("f7", "grammar_mutual")]


def obligations(tier: str):
    T = tier == "thorough"
    obs = []
    for fxn, var in CORPUS:
        tag = fxn + ("_" + var.replace("grammar_", "") if var else "")
        cfg = {"fixture": fxn}
        if var:
            cfg["variant"] = var
        obs.append(Ob("tables", dict(cfg), name=f"tables_{tag}", timeout=60, smoke=1))
        obs.append(Ob("tables", dict(cfg, expansion_depthing=True), name=f"tables_expdepth_{tag}", timeout=60, smoke=1))
        obs.append(Ob("usable", dict(cfg), name=f"usable_{tag}", timeout=60, smoke=1))
    obs.append(Ob("usable", {"fixture": "f4", "grammar_fn": "grammar_with_unreachable"}, name="usable_f4_drops_unreachable", timeout=60, smoke=1))
    obs.append(Ob("family", {"stride": 1 if T else 3}, name="tables_generated_family", timeout=300, smoke=0))
    obs.append(Ob("shipped", {"roots": ["tests"], "at_least": 20}, name="tables_shipped_tests", timeout=200, smoke=0, twin=False))
    obs.append(Ob("shipped", {"roots": ["examples", "geml"], "at_least": 10}, name="tables_shipped_examples", timeout=400, smoke=0, twin=False))
    # solver-backed inner quantifiers
    targets = [("f1", None, ["Expr", "Neg", "Plus"]), ("f3", None, ["Root", "U", "Pair"]), ("f4", None, ["Stmt", "Expr", "Ret"] + (["Seq"] if T else [])), ("f7", "grammar_tuple", ["Root", "ViaTuple"]), ("f7", "grammar_mutual", ["Root", "Other", "Ping"]), ("f2", None, ["Root", "Lst"])]
    for fxn, var, syms in targets:
        for sname in syms:
            cfg = {"fixture": fxn, "symbol": sname, "fuel": 60}
            if var:
                cfg["variant"] = var
            tag = fxn + ("_" + var.replace("grammar_", "") if var else "") + "_" + sname
            obs.append(Ob("min_depth_lower_bound", dict(cfg, extra=2 if T and tag != "f4_Seq" else 1), name=f"mindepth_forall_{tag}", timeout=600 if T else 100))
            obs.append(Ob("min_depth_witness", dict(cfg), name=f"mindepth_exists_{tag}", expect="refute", timeout=100, twin=False))
    rec = [("f1", None, "Expr", True), ("f1", None, "Leaf", False), ("f4", None, "Stmt", True), ("f4", None, "Num", False), ("f7", "grammar_tuple", "Root", True), ("f7", "grammar_tuple2", "ViaTuple2", True), ("f7", "grammar_mutual", "Other", True), ("f7", "grammar_union", "Root", False), ("f3", None, "Root", False)]
    for fxn, var, sname, is_rec in rec:
        cfg = {"fixture": fxn, "symbol": sname, "D": 3 if not T else 4, "fuel": 60}
        if var:
            cfg["variant"] = var
        tag = fxn + ("_" + var.replace("grammar_", "") if var else "") + "_" + sname
        obs.append(Ob("recursion", cfg, name=f"recursion_{'witness' if is_rec else 'absent'}_{tag}", expect="refute" if is_rec else "confirm", timeout=600 if T else 100, twin=not is_rec))
    return obs
