"""C13 - fitness is computed from the phenotype, once, and counted honestly; evaluators agree."""
from __future__ import annotations

from geneticengine.algorithms.gp.population import Population
from geneticengine.evaluation.parallel import ParallelEvaluator
from geneticengine.evaluation.sequential import SequentialEvaluator
from geneticengine.evaluation.tracker import MultiObjectiveProgressTracker, SingleObjectiveProgressTracker
from geneticengine.problems import MultiObjectiveProblem, SingleObjectiveProblem
from geneticengine.solutions.individual import Individual

from vf.engine.ob import Ob
from vf.engine.popfix import TABLES, SymFitness, TokRep
from vf.engine.sym import Ctx

PROPERTY = "C13"
FUNCTIONS = [
    "evaluation.api.Evaluator.evaluate/eval_single/register_evaluation, evaluation.sequential.SequentialEvaluator.evaluate_async",
    "evaluation.parallel.ParallelEvaluator.evaluate_async (pool stubbed by its map contract)",
    "solutions.individual.Individual.get_phenotype/has_fitness/set_fitness/get_fitness/ensure_fitness",
    "problems.SingleObjectiveProblem.evaluate, MultiObjectiveProblem.evaluate + default aggregate; gp.population.Population",
]
ASSUMPTIONS = [
    "process pool: pathos ProcessingPool(n).map(f, xs) == [f(x) for x in xs] in order, n >= 1 required (documented map contract); worker scheduling itself is outside",
    "populations of 1-3 (thorough 4) individuals; which are pre-evaluated and which list positions repeat an earlier individual are symbolic",
    "fitness values from a table of 2-3 distinct floats per program (function of the program: memoised per token)",
]


class _FakePool:
    def __init__(self, nodes=None):
        if nodes is not None and nodes < 1:
            raise ValueError("Number of processes must be at least 1")
        self.nodes = nodes

    def __enter__(self):
        return self

    def __exit__(self, *a):
        return False

    def map(self, f, xs):
        return [f(x) for x in xs]


def _install_pool_stub():
    import pathos.multiprocessing as PM

    orig = PM.ProcessingPool
    PM.ProcessingPool = _FakePool
    return lambda: setattr(PM, "ProcessingPool", orig)


def _mk_problem(ctx, cfg, fit):
    kind = cfg["problem"]
    if kind == "single":
        m = ctx.bool("minimize")
        return SingleObjectiveProblem(fit, minimize=m), [m]
    n = fit.components
    if kind == "multi_bool":
        m = ctx.bool("minimize")
        return MultiObjectiveProblem(m, fit), [m] * n
    ms = [ctx.bool("minimize") for _ in range(n)]
    return MultiObjectiveProblem(list(ms), fit), ms


def _population(ctx, cfg, rep):
    n = ctx.cint(1, cfg["n"], "n")
    inds = []
    for j in range(n):
        if j > 0 and cfg.get("duplicates") and ctx.bool("dup"):
            inds.append(inds[ctx.cint(0, j - 1, "dup_of")])
        else:
            inds.append(Individual(rep.create_genotype(None), rep))
    return inds


def _expected(fit, tok, minimize):
    v = fit.value_of(tok)
    if fit.components:
        return sum(-x if m else x for x, m in zip(v, minimize)), list(v)
    return (-v if minimize[0] else v), [v]


def _run(ctx, cfg, ev_kind):
    comps = cfg.get("components", 0)
    fit = SymFitness(ctx, TABLES[cfg.get("table", 2)], components=comps)
    problem, minimize = _mk_problem(ctx, cfg, fit)
    rep = TokRep()
    inds = _population(ctx, cfg, rep)
    ev = SequentialEvaluator() if ev_kind == "seq" else ParallelEvaluator()
    distinct = []
    for i in inds:
        if not any(i is d for d in distinct):
            distinct.append(i)
    pre = [i for i in distinct if cfg.get("preevaluated") and ctx.bool("pre")]
    if pre:
        ev.evaluate(problem, pre)
    n_pre_calls = len(fit.log)
    yielded = list(ev.evaluate_async(problem, list(inds)))
    return fit, problem, minimize, inds, distinct, pre, n_pre_calls, ev, yielded


def _oracle(ctx, fit, problem, minimize, inds, distinct, ev, yielded):
    ctx.reached()
    ctx.require(len(yielded) == len(inds) and all(a is b for a, b in zip(yielded, inds)), "eval:evaluator-does-not-yield-every-individual-in-order", lambda: {"given": len(inds), "yielded": len(yielded)})
    for i in distinct:
        ctx.require(i.has_fitness(problem), "eval:individual-left-without-fitness")
        f = i.get_fitness(problem)
        agg, comps = _expected(fit, i.genotype, minimize)
        ctx.require(list(f.fitness_components) == comps, "eval:recorded-fitness-is-not-the-program's", lambda: {"individual": i.genotype.k, "recorded": list(f.fitness_components), "expected": comps})
        ctx.require(f.maximizing_aggregate == agg, "eval:maximising-aggregate-wrong", lambda: {"individual": i.genotype.k, "aggregate": f.maximizing_aggregate, "expected": agg, "minimize": minimize})
    per = {}
    for k in fit.log:
        per[k] = per.get(k, 0) + 1
    for i in distinct:
        ctx.require(per.get(i.genotype.k, 0) <= 1, "eval:fitness-function-invoked-more-than-once-for-an-individual", lambda: {"individual": i.genotype.k, "invocations": per.get(i.genotype.k, 0)})
    ctx.require(ev.number_of_evaluations() == len(fit.log), "eval:counter-differs-from-fitness-invocations", lambda: {"counter": ev.number_of_evaluations(), "invocations": len(fit.log)})


def h_evaluator(ctx: Ctx, cfg):
    undo = _install_pool_stub()
    try:
        fit, problem, minimize, inds, distinct, pre, npc, ev, yielded = _run(ctx, cfg, cfg["evaluator"])
        _oracle(ctx, fit, problem, minimize, inds, distinct, ev, yielded)
    finally:
        undo()


def h_two_problems(ctx: Ctx, cfg):
    """two problems sharing the individuals: per-problem caches do not interfere"""
    undo = _install_pool_stub()
    try:
        fa, fb = SymFitness(ctx, TABLES[2]), SymFitness(ctx, TABLES[2])
        pa, pb = SingleObjectiveProblem(fa, minimize=ctx.bool("ma")), SingleObjectiveProblem(fb, minimize=ctx.bool("mb"))
        rep = TokRep()
        inds = [Individual(rep.create_genotype(None), rep) for _ in range(cfg["n"])]
        ev = SequentialEvaluator() if cfg["evaluator"] == "seq" else ParallelEvaluator()
        ev.evaluate(pa, list(inds))
        ev.evaluate(pb, list(inds))
        ev.evaluate(pa, list(inds))
        ctx.reached()
        for i in inds:
            ctx.require(i.get_fitness(pa).fitness_components[0] == fa.value_of(i.genotype), "eval:recorded-fitness-is-not-the-program's")
            ctx.require(i.get_fitness(pb).fitness_components[0] == fb.value_of(i.genotype), "eval:recorded-fitness-is-not-the-program's")
        ctx.require(len(fa.log) == len(inds) and len(fb.log) == len(inds), "eval:fitness-function-invoked-more-than-once-for-an-individual", lambda: {"a": len(fa.log), "b": len(fb.log), "n": len(inds)})
        ctx.require(ev.number_of_evaluations() == len(fa.log) + len(fb.log), "eval:counter-differs-from-fitness-invocations")
    finally:
        undo()


def h_agree(ctx: Ctx, cfg):
    """sequential and parallel evaluators on identical inputs leave identical stores and counters"""
    undo = _install_pool_stub()
    try:
        comps = cfg.get("components", 0)
        fit = SymFitness(ctx, TABLES[2], components=comps)
        problem, minimize = _mk_problem(ctx, cfg, fit)
        problem2 = type(problem)(problem.minimize, fit) if comps else SingleObjectiveProblem(fit, minimize=minimize[0])
        rep = TokRep()
        n = ctx.cint(1, cfg["n"], "n")
        toks = [rep.create_genotype(None) for _ in range(n)]
        A = [Individual(t, rep) for t in toks]
        B = [Individual(t, rep) for t in toks]
        if cfg.get("duplicates") and n > 1 and ctx.bool("dup"):
            A.append(A[0])
            B.append(B[0])
        pre = [ctx.bool("pre") if cfg.get("preevaluated") else False for _ in toks]
        s, p = SequentialEvaluator(), ParallelEvaluator()
        s.evaluate(problem, [a for a, m in zip(A, pre) if m])
        p.evaluate(problem2, [b for b, m in zip(B, pre) if m])
        s.evaluate(problem, list(A))
        p.evaluate(problem2, list(B))
        ctx.reached()
        for a, b in zip(A, B):
            fa, fb = a.get_fitness(problem), b.get_fitness(problem2)
            ctx.require(list(fa.fitness_components) == list(fb.fitness_components) and fa.maximizing_aggregate == fb.maximizing_aggregate, "eval:evaluators-disagree-on-fitness")
        ctx.require(s.number_of_evaluations() == p.number_of_evaluations(), "eval:evaluators-disagree-on-count", lambda: {"sequential": s.number_of_evaluations(), "parallel": p.number_of_evaluations()})
    finally:
        undo()


def h_population(ctx: Ctx, cfg):
    """Population evaluates what it is given through the tracker; re-presenting individuals (as
    steps do with elites) does not re-evaluate them"""
    undo = _install_pool_stub()
    try:
        fit = SymFitness(ctx, TABLES[2])
        m = ctx.bool("minimize")
        problem = SingleObjectiveProblem(fit, minimize=m)
        ev = SequentialEvaluator() if cfg["evaluator"] == "seq" else ParallelEvaluator()
        tr = SingleObjectiveProgressTracker(problem, ev)
        rep = TokRep()
        inds = [Individual(rep.create_genotype(None), rep) for _ in range(cfg["n"])]
        pop = Population(iter(inds), tr, 0)
        again = [i for i in inds if ctx.bool("carry")] + [Individual(rep.create_genotype(None), rep)]
        pop2 = Population(iter(again), tr, 1)
        ctx.reached()
        distinct = inds + [again[-1]]
        _oracle(ctx, fit, problem, [m], list(pop2), distinct, ev, list(pop2))
        ctx.require(tr.get_number_evaluations() == len(fit.log), "eval:counter-differs-from-fitness-invocations")
    finally:
        undo()


def h_step_counts(ctx: Ctx, cfg):
    """fitness-using steps handed individuals that were never evaluated (selection after variation,
    a fresh population): whatever the step evaluates goes through the evaluator - once per
    individual, counted, and the recorded value is the program's"""
    from geneticengine.algorithms.gp.operators.elitism import ElitismStep
    from geneticengine.algorithms.gp.operators.novelty import NoveltyStep
    from geneticengine.algorithms.gp.operators.selection import LexicaseSelection, TournamentSelection

    from vf.engine.sym import FreshRandom

    undo = _install_pool_stub()
    try:
        kind = cfg["step"]
        comps = 2 if kind == "lexicase" else 0
        fit = SymFitness(ctx, TABLES[2], components=comps)
        if comps:
            ms = [ctx.bool("minimize") for _ in range(comps)]
            problem = MultiObjectiveProblem(list(ms), fit)
        else:
            ms = [ctx.bool("minimize")]
            problem = SingleObjectiveProblem(fit, minimize=ms[0])
        rep = TokRep()
        n = cfg["n"]
        inds = [Individual(rep.create_genotype(None), rep) for _ in range(n)]
        ev = SequentialEvaluator() if cfg["evaluator"] == "seq" else ParallelEvaluator()
        pre = [i for i in inds if ctx.bool("pre")]
        if pre:
            ev.evaluate(problem, pre)
        step = {"tournament": lambda: TournamentSelection(2), "lexicase": lambda: LexicaseSelection(), "elitism": lambda: ElitismStep(), "novelty": lambda: NoveltyStep()}[kind]()
        r = FreshRandom(ctx)
        r.fixed = True  # which individuals the draws pick is not the subject here
        k = ctx.cint(1, n, "k")
        out = list(step.apply(problem, ev, rep, r, list(inds), k, 1))
        ctx.reached()
        per = {}
        for t in fit.log:
            per[t] = per.get(t, 0) + 1
        for i in inds + [o for o in out if not any(o is j for j in inds)]:
            ctx.require(per.get(i.genotype.k, 0) <= 1, "eval:fitness-function-invoked-more-than-once-for-an-individual", lambda: {"individual": i.genotype.k, "invocations": per.get(i.genotype.k, 0)})
            if i.has_fitness(problem):
                agg, cs = _expected(fit, i.genotype, ms)
                ctx.require(list(i.get_fitness(problem).fitness_components) == cs, "eval:recorded-fitness-is-not-the-program's")
        ctx.require(ev.number_of_evaluations() == len(fit.log), "eval:counter-differs-from-fitness-invocations", lambda: {"step": kind, "counter": ev.number_of_evaluations(), "invocations": len(fit.log), "preevaluated": len(pre), "n": n, "k": k})
    finally:
        undo()


def _pool_fitness(tok):
    return float(tok.k * 10 + 1)


def h_real_pool(ctx: Ctx, cfg):
    """no symbols: the REAL pathos process pool on a mixed population (some already evaluated, one
    repeated) must leave the same fitness values and counter as the sequential evaluator"""

    def run():
        out = {}
        for kind in ("seq", "par"):
            problem = SingleObjectiveProblem(_pool_fitness, minimize=True)
            rep = TokRep()
            inds = [Individual(rep.create_genotype(None), rep) for _ in range(4)]
            ev = SequentialEvaluator() if kind == "seq" else ParallelEvaluator()
            ev.evaluate(problem, inds[:1])
            batch = [inds[0], inds[1], inds[1], inds[2], inds[3]]
            ev.evaluate(problem, batch)
            out[kind] = ([i.get_fitness(problem).fitness_components[0] for i in inds], [i.get_fitness(problem).maximizing_aggregate for i in inds], ev.number_of_evaluations())
        return out

    out = ctx.concrete(run)
    ctx.reached()
    ctx.require(out["seq"][0] == [1.0, 11.0, 21.0, 31.0], "eval:recorded-fitness-is-not-the-program's", out)
    ctx.require(out["seq"] == out["par"], "eval:evaluators-disagree-on-fitness", out)
    ctx.require(out["par"][2] == 4, "eval:counter-differs-from-fitness-invocations", out)


HARNESSES = {"step_counts": h_step_counts, "real_pool": h_real_pool, "evaluator": h_evaluator, "two_problems": h_two_problems, "agree": h_agree, "population": h_population}


def obligations(tier: str):
    T = tier == "thorough"
    obs = []

    def add(h, name, timeout=100, **cfg):
        obs.append(Ob(h, cfg, name=name, timeout=timeout * (8 if T else 1)))

    N = 4 if T else 3
    for ev in ("seq", "par"):
        add("evaluator", f"{ev}_single_fresh", evaluator=ev, problem="single", n=N)
        add("evaluator", f"{ev}_single_mixed", evaluator=ev, problem="single", n=N, preevaluated=True)
        add("evaluator", f"{ev}_single_duplicates", evaluator=ev, problem="single", n=N, duplicates=True)
        add("evaluator", f"{ev}_multi_list", evaluator=ev, problem="multi", components=2, n=2, preevaluated=True)
        add("evaluator", f"{ev}_multi_bool", evaluator=ev, problem="multi_bool", components=2, n=2)
        add("two_problems", f"{ev}_two_problems", evaluator=ev, n=2)
        add("population", f"{ev}_population", evaluator=ev, n=2 if not T else 3)
    for st in ("tournament", "lexicase", "elitism", "novelty"):
        add("step_counts", f"seq_step_{st}_counts", evaluator="seq", step=st, n=2 if st == "lexicase" and not T else 3, timeout=150)
    add("step_counts", "par_step_tournament_counts", evaluator="par", step="tournament", n=3)
    add("real_pool", "concrete_real_process_pool_agrees_with_sequential", timeout=120)
    add("agree", "agree_single", problem="single", n=N, preevaluated=True, duplicates=True)
    add("agree", "agree_multi", problem="multi", components=2, n=2, preevaluated=True)
    return obs
