"""C15 - population size is invariant across generations and step compositions."""
from __future__ import annotations

import itertools
import time

from geneticengine.algorithms.gp.gp import GeneticProgramming, default_generic_programming_step
from geneticengine.algorithms.gp.operators.combinators import ExclusiveParallelStep, IdentityStep, ParallelStep, SequenceStep
from geneticengine.algorithms.gp.operators.crossover import GenericCrossoverStep
from geneticengine.algorithms.gp.operators.elitism import ElitismStep
from geneticengine.algorithms.gp.operators.initializers import HalfAndHalfInitializer, StandardInitializer
from geneticengine.algorithms.gp.operators.mutation import GenericMutationStep
from geneticengine.algorithms.gp.operators.novelty import NoveltyStep
from geneticengine.algorithms.gp.operators.selection import LexicaseSelection, TournamentSelection
from geneticengine.algorithms.gp.population import Population
from geneticengine.evaluation.budget import EvaluationBudget
from geneticengine.evaluation.sequential import SequentialEvaluator
from geneticengine.evaluation.tracker import SingleObjectiveProgressTracker
from geneticengine.problems import MultiObjectiveProblem, SingleObjectiveProblem
from geneticengine.representations.common import GenericPopulationInitializer
from geneticengine.solutions.individual import Individual

from vf.engine.ob import Ob
from vf.engine.popfix import TABLES, SymFitness, TokRep
from vf.engine.sym import Ctx, FreshRandom

PROPERTY = "C15"
FUNCTIONS = [
    "gp.operators.combinators.ParallelStep.compute_ranges / cumsum / iterate (engine B: AST->z3 encoding of the current source; engine A: executed)",
    "gp.operators.combinators.ExclusiveParallelStep.iterate, SequenceStep.iterate, IdentityStep",
    "gp.operators.{elitism,novelty,selection,mutation,crossover}.iterate, gp.structure.GeneticStep.apply",
    "gp.operators.initializers, representations.common.GenericPopulationInitializer, tree.operators initialisers incl. InjectInitialPopulationWrapper",
    "gp.gp.GeneticProgramming.search generation loop, gp.population.Population",
]
ASSUMPTIONS = [
    "engine B: float arithmetic of compute_ranges modelled as exact rationals with round-half-even; justified for integer weights/sizes <= 10^5 (a non-tie quotient w*n/total differs from a tie by >= 1/(2*total) >> 1 ulp) and validated on every run by differential execution of the encoding against the real method",
    "engine B: weight vector concrete per query (all vectors in {0..W}^k, W=4 k<=3 quick; W=6 k<=4 thorough, plus the vectors used in the repository); population length and target size symbolic integers with 1 <= target <= population <= 10^5",
    "engine A: target k symbolic in [1,4], population m in [k,5]; population passed as list, Population object and one-shot iterator; combinator nestings from a fixed list of shapes",
    "precondition: at least one weight positive (an all-zero weight vector has no shares to compute)",
    "the default GP step (tournaments of 5) and the thorough tier's whole-run obligations take their integer draws from a fixed deterministic stream (the picks multiply the paths beyond exhaustion and the counts do not depend on them); probability gates (mutation / crossover rates) stay forked",
    "ParameterlessPopulationInitializer (adaptive / parameterless GP) is driven by a wall-clock budget, not by the requested size: outside the claim like every time budget; AjustPopulationSizeStep deliberately changes the configured size between generations",
]


# ------------------------------------------------------------------------------- engine B
def _vectors(W, K):
    out = []
    for k in range(1, K + 1):
        for w in itertools.product(range(W + 1), repeat=k):
            if any(w):
                out.append(list(w))
    return out


REPO_VECTORS = [[5, 5, 90], [1, 1], [8, 7, 9], [1, 1, 1], [0.5, 0.5], [0.2, 0.3, 0.5], [1, 1, 2], [0, 0, 100], [3, 1, 0]]


def _encode(step_cls, weights, L, T):
    """interpret the CURRENT source of compute_ranges; returns list of (path_condition, ranges)"""
    import z3  # noqa: F401

    from vf.engine.py2smt import Interp, SymLen

    step = step_cls([IdentityStep() for _ in weights], weights=list(weights))
    return Interp().run(ParallelStep.compute_ranges, [SymLen(L), T], self_obj=step)


def smt_compute_ranges(cfg):
    import z3

    from vf.engine.py2smt import Unsupported

    vecs = _vectors(cfg["W"], cfg["K"]) + REPO_VECTORS
    if cfg.get("random_vectors"):
        # the parameterless / adaptive GP variants draw four weights from randint(0, 1000)
        import random as _r0

        rr = _r0.Random(cfg.get("seed", 0))
        for _ in range(cfg["random_vectors"]):
            v = [rr.randint(0, 1000) for _ in range(4)]
            if any(v):
                vecs.append(v)
        vecs += [[0, 0, 0, 1000], [1000, 0, 0, 0], [1, 1000, 1, 1000], [333, 333, 334, 0], [999, 1, 999, 1]]
    MAXN = cfg.get("MAXN", 10**5)
    t_solver = 0.0
    n_q = n_unsat = n_unknown = 0
    # translator validation: encoding vs real method on concrete inputs
    import random as _r

    rng = _r.Random(cfg.get("seed", 0))
    validated = 0
    for w in vecs[:: max(1, len(vecs) // 40)] + REPO_VECTORS:
        for _ in range(6):
            T = rng.choice([1, 2, 3, 5, 7, 10, 11, 100, 101, 999, rng.randint(1, 5000)])
            L = T + rng.choice([0, 0, 0, 1, 2, 10])
            real = ParallelStep([IdentityStep() for _ in w], weights=list(w)).compute_ranges([None] * L, T)
            paths = _encode(ParallelStep, w, z3.IntVal(L), z3.IntVal(T))
            got = None
            for pc, ranges in paths:
                s = z3.Solver()
                s.add(*pc)
                if str(s.check()) == "sat":
                    m = s.model()
                    got = [(m.eval(a if z3.is_expr(a) else z3.IntVal(a), True).as_long(), m.eval(b if z3.is_expr(b) else z3.IntVal(b), True).as_long()) for a, b in ranges]
                    break
            if got != [tuple(x) for x in real]:
                return {"verdict": "harness_error", "message": f"translator validation failed: weights={w} L={L} T={T} real={real} encoding={got}"}
            validated += 1
    L, T = z3.Int("L"), z3.Int("T")
    dom = [T >= 1, L >= T, L <= MAXN]
    for w in vecs:
        try:
            paths = _encode(ParallelStep, w, L, T)
        except Unsupported as e:
            return {"verdict": "inconclusive", "message": "unsupported construct in compute_ranges: " + str(e), "queries": n_q}
        for pc, ranges in paths:
            sizes = [z3.If(b - a > 0, b - a, 0) if (z3.is_expr(a) or z3.is_expr(b)) else max(0, b - a) for a, b in ranges]
            total = sizes[0]
            for x in sizes[1:]:
                total = total + x
            bad = z3.Or(total != T, *[(b - a) < 0 if (z3.is_expr(a) or z3.is_expr(b)) else z3.BoolVal(b - a < 0) for a, b in ranges])
            s = z3.Solver()
            s.set("timeout", 20000)
            s.add(*dom, *pc, bad)
            t0 = time.time()
            r = str(s.check())
            t_solver += time.time() - t0
            n_q += 1
            if r == "unsat":
                n_unsat += 1
            elif r == "sat":
                m = s.model()
                return {"verdict": "refuted", "clause": "size:parallel-step-slices-do-not-add-up-to-target", "model": {"weights": w, "population": m.eval(L, True).as_long(), "target": m.eval(T, True).as_long()}, "queries": n_q, "unsat": n_unsat, "sat": 1, "unknown": n_unknown, "solver_s": round(t_solver, 2), "validated": validated, "encoded": "ParallelStep.compute_ranges (current source)"}
            else:
                n_unknown += 1
    verdict = "confirmed" if n_unknown == 0 else "inconclusive"
    return {"verdict": verdict, "message": f"{n_unknown} queries unknown" if n_unknown else "", "queries": n_q, "unsat": n_unsat, "sat": 0, "unknown": n_unknown, "solver_s": round(t_solver, 2), "validated": validated, "vectors": len(vecs), "encoded": "ParallelStep.compute_ranges (current source)"}


def smt_replay_compute_ranges(cfg, model):
    w, L, T = model["weights"], model["population"], model["target"]
    ranges = ParallelStep([IdentityStep() for _ in w], weights=list(w)).compute_ranges([None] * L, T)
    got = sum(max(0, b - a) for a, b in ranges)
    ok = got == T and all(b - a >= 0 for a, b in ranges)
    return {"ok": ok, "clause": None if ok else "size:parallel-step-slices-do-not-add-up-to-target", "detail": {"weights": w, "population": L, "target": T, "ranges": [list(x) for x in ranges], "yielded": got}}


SMT = {"compute_ranges": smt_compute_ranges}
SMT_REPLAY = {"compute_ranges": smt_replay_compute_ranges}


# ------------------------------------------------------------------------------- engine A
def _pop(ctx, cfg, rep, problem, m):
    inds = [Individual(rep.create_genotype(None), rep) for _ in range(m)]
    form = cfg.get("form", "list")
    if form == "list":
        return inds, list(inds)
    if form == "repeats":  # the same Individual object several times, as a selection step hands it over
        for j in range(1, m):
            if ctx.bool("repeat"):
                inds[j] = inds[ctx.cint(0, j - 1, "repeat_of")]
        return inds, list(inds)
    if form == "iterator":
        return inds, iter(list(inds))
    tr = SingleObjectiveProgressTracker(problem, SequentialEvaluator()) if not isinstance(problem, MultiObjectiveProblem) else None
    if tr is None:
        from geneticengine.evaluation.tracker import MultiObjectiveProgressTracker

        tr = MultiObjectiveProgressTracker(problem, SequentialEvaluator())
    return inds, Population(iter(inds), tr, 0)


def _step(name, ctx):
    if name == "elitism":
        return ElitismStep()
    if name == "novelty":
        return NoveltyStep()
    if name == "identity":
        return IdentityStep()
    if name == "tournament":
        return TournamentSelection(ctx.cint(1, 2, "tsize"), with_replacement=ctx.bool("replacement"))
    if name == "lexicase":
        return LexicaseSelection()
    if name == "mutation":
        return GenericMutationStep(ctx.pick([0.0, 0.5, 1.0], "pm"))
    if name == "crossover":
        return GenericCrossoverStep(ctx.pick([0.0, 0.5, 1.0], "pc"))
    if name == "sequence":
        return SequenceStep(TournamentSelection(2), GenericCrossoverStep(1), GenericMutationStep(1))
    if name == "sequence_elitism_last":
        return SequenceStep(GenericMutationStep(1), ElitismStep())
    if name == "selection_then_elitism":
        return SequenceStep(TournamentSelection(2), ElitismStep())
    if name == "parallel":
        return ParallelStep([ElitismStep(), NoveltyStep(), GenericMutationStep(1)], weights=[ctx.cint(0, 3, "w") for _ in range(3)])
    if name == "exclusive":
        return ExclusiveParallelStep([GenericMutationStep(1), GenericCrossoverStep(1)], weights=[ctx.cint(0, 3, "w") for _ in range(2)])
    if name == "default":
        return default_generic_programming_step()
    if name == "simplegp":  # geml.simplegp.SimpleGP.build_step shape
        e, n = ctx.cint(0, 2, "elitism"), ctx.cint(0, 2, "novelty")
        return ("simplegp", e, n)
    if name == "randomize_parallel":
        from geneticengine.algorithms.gp.parameterless import RandomizeParallelStep

        return RandomizeParallelStep([ElitismStep(), NoveltyStep(), GenericMutationStep(1), GenericCrossoverStep(1)], weights=[ctx.cint(0, 2, "w") for _ in range(4)])
    if name == "randomize_parallel_fixed":
        from geneticengine.algorithms.gp.parameterless import RandomizeParallelStep

        return RandomizeParallelStep([ElitismStep(), NoveltyStep(), IdentityStep(), NoveltyStep()], weights=[1, 1, 1, 1])
    if name == "adaptive_mutation":
        from geneticengine.algorithms.gp.adaptive import GenericAdaptiveMutationStep

        return GenericAdaptiveMutationStep(ctx.pick([0.0, 1.0], "pm"))
    if name == "adaptive_crossover":
        from geneticengine.algorithms.gp.adaptive import GenericAdaptiveCrossoverStep

        return GenericAdaptiveCrossoverStep(ctx.pick([0.0, 1.0], "pc"))
    if name == "feedback_parallel":
        return "feedback"
    if name == "nested":
        return ParallelStep([SequenceStep(TournamentSelection(2), ParallelStep([GenericMutationStep(1), NoveltyStep()], weights=[1, 1])), ElitismStep()], weights=[ctx.cint(1, 3, "w"), ctx.cint(0, 2, "w")])
    raise KeyError(name)


def h_step(ctx: Ctx, cfg):
    lex = cfg["step"] == "lexicase"
    fit = SymFitness(ctx, TABLES[2] if cfg.get("fitness") == "sym" else [1.0], components=2 if lex else 0)
    problem = MultiObjectiveProblem([False, False], fit) if lex else SingleObjectiveProblem(fit, minimize=False)
    rep = TokRep()
    k = ctx.cint(1, cfg["K"], "target")
    m = ctx.cint(k, cfg["M"], "population")
    step = _step(cfg["step"], ctx)
    if isinstance(step, tuple):
        _, e, n = step
        if e + n > k:
            ctx.abandon("precondition:elitism+novelty<=population")
        inner = SequenceStep(TournamentSelection(2), ExclusiveParallelStep([GenericMutationStep(1), GenericCrossoverStep(1)]))
        step = ParallelStep([ElitismStep(), NoveltyStep(), inner], [e, n, k - n - e])
        if e == 0 and n == 0 and k == 0:
            ctx.abandon("precondition")
    if step == "feedback":  # adaptive GP's weight-feedback combinator needs a tracker that has seen a best individual
        from geneticengine.algorithms.gp.adaptive import FeedbackParallelStep

        tr0 = SingleObjectiveProgressTracker(problem, SequentialEvaluator())
        tr0.evaluate([Individual(rep.create_genotype(None), rep)])
        step = FeedbackParallelStep(tr0, [ElitismStep(), NoveltyStep(), GenericMutationStep(1)], weights=[ctx.cint(0, 1 if cfg.get("twice") else 2, "w") for _ in range(3)])
    if hasattr(step, "weights") and not any(step.weights):
        ctx.abandon("precondition:all-zero-weights")
    inds, pop = _pop(ctx, cfg, rep, problem, m)
    ctx.note("k", k)
    ctx.note("m", m)
    rnd = FreshRandom(ctx, coarse=bool(cfg.get("twice")))
    rnd.fixed = bool(cfg.get("fixed_random"))  # integer draws from a fixed stream (tournaments of 5: the picks are not what the count depends on)
    out = list(step.apply(problem, SequentialEvaluator(), rep, rnd, pop, k, 1))
    ctx.reached()
    ctx.require(len(out) == k, "size:step-does-not-yield-exactly-k", lambda: {"step": cfg["step"], "form": cfg.get("form", "list"), "k": k, "population": m, "yielded": len(out)})
    if cfg.get("twice") and len(out) >= k:
        # steps that re-configure themselves after a generation (weights, probabilities) must still
        # yield exactly k in the next one
        rnd.coarse_single = True  # the re-configuration AFTER the second generation is irrelevant here
        out2 = list(step.apply(problem, SequentialEvaluator(), rep, rnd, list(out), k, 2))
        ctx.require(len(out2) == k, "size:step-does-not-yield-exactly-k", lambda: {"step": cfg["step"], "generation": 2, "k": k, "yielded": len(out2), "weights": list(getattr(step, "weights", []))})
    ctx.require(all(isinstance(o, Individual) for o in out), "size:step-yields-non-individual")


def h_initializer(ctx: Ctx, cfg):
    from geneticengine.representations.tree import operators as OPS

    from vf.engine import synth

    k = ctx.cint(1, cfg["K"], "target")
    kind = cfg["init"]
    r = FreshRandom(ctx)
    if kind in ("standard", "generic", "halfandhalf"):
        rep = TokRep()
        init = {"standard": StandardInitializer(), "generic": GenericPopulationInitializer(), "halfandhalf": HalfAndHalfInitializer(StandardInitializer().initialize, GenericPopulationInitializer().initialize)}[kind]
        out = list(init.initialize(None, rep, r, k))
    else:
        fx, g = synth.make_grammar(ctx, {"fixture": "f0"})
        rep = synth.make_rep({"rep": "tree", "decider": "grow", "max_depth": 2}, g, r)
        if kind == "inject":
            j = ctx.cint(0, cfg["K"] + 1, "injected")
            progs = [rep.create_genotype(r) for _ in range(j)]
            if ctx.bool("as_individuals"):
                progs = [Individual(p, rep) for p in progs]
            init = OPS.InjectInitialPopulationWrapper(progs, StandardInitializer())
            ctx.note("injected", j)
        else:
            init = {"full": OPS.FullInitializer(2), "grow": OPS.GrowInitializer(), "pigrow": OPS.PositionIndependentGrowInitializer(2), "ramped": OPS.RampedHalfAndHalfInitializer(2)}[kind]
        out = list(init.initialize(None, rep, r, k))
    ctx.reached()
    ctx.note("k", k)
    ctx.require(len(out) == k, "size:initializer-does-not-yield-exactly-k", lambda: {"init": kind, "k": k, "yielded": len(out)})
    ctx.require(all(isinstance(o, Individual) for o in out), "size:initializer-yields-non-individual")


def h_generations(ctx: Ctx, cfg):
    """a real GP run: every generation handed to Population has exactly population_size members"""
    fit = SymFitness(ctx, [1.0])
    problem = SingleObjectiveProblem(fit, minimize=False)
    rep = TokRep()
    P = ctx.cint(cfg.get("Pmin", 2), cfg["P"], "population_size")
    if cfg["step"] == "default":
        step = default_generic_programming_step()
    else:
        e, n = ctx.cint(0, 1, "elitism"), ctx.cint(0, 1, "novelty")
        if e + n > P:
            ctx.abandon("precondition")
        inner = SequenceStep(TournamentSelection(2), ExclusiveParallelStep([GenericMutationStep(1), GenericCrossoverStep(1)]))
        step = ParallelStep([ElitismStep(), NoveltyStep(), inner], [e, n, P - n - e])
    from vf.props.c14 import Counting, LoopFuel

    rnd = FreshRandom(ctx)
    rnd.fixed = bool(cfg.get("fixed_random"))
    gp = GeneticProgramming(problem, Counting(EvaluationBudget(cfg["budget"]), fuel=cfg["budget"] + 2), rep, rnd, population_size=P, step=step)
    sizes = {}
    orig = Population.__init__

    def spy(self, it, tracker, generation=-1):
        orig(self, it, tracker, generation)
        sizes[generation] = len(self.individuals)

    Population.__init__ = spy
    try:
        gp.search()
    except LoopFuel:  # generations that evaluate nothing new never meet the budget: C14's finding
        ctx.note("loop_fuel", True)
    finally:
        Population.__init__ = orig
    ctx.reached()
    for gen, n in sizes.items():
        ctx.require(n == P, "size:generation-size-differs-from-population-size", lambda: {"generation": gen, "size": n, "population_size": P})


HARNESSES = {"step": h_step, "initializer": h_initializer, "generations": h_generations}


def obligations(tier: str):
    T = tier == "thorough"
    obs = []
    import os as _os

    seed = int(_os.environ.get("VERIF_SEED", "0") or 0)
    obs.append(Ob("compute_ranges", {"W": 6 if T else 4, "K": 4 if T else 3, "seed": seed, "random_vectors": 300 if T else 40}, name="engineB_compute_ranges_all_vectors", kind="smt", timeout=1800 if T else 200, twin=False, smoke=0))

    def add(h, name, timeout=100, **cfg):
        obs.append(Ob(h, cfg, name=name, timeout=timeout * (8 if T else 1)))

    K, M = (4, 5) if T else (3, 4)
    small = ("tournament", "lexicase", "nested", "simplegp", "parallel", "sequence", "default", "exclusive", "randomize_parallel", "feedback_parallel")
    for st in ("elitism", "novelty", "identity", "tournament", "lexicase", "mutation", "crossover", "sequence", "sequence_elitism_last", "selection_then_elitism", "parallel", "exclusive", "default", "simplegp", "nested", "randomize_parallel", "adaptive_mutation", "adaptive_crossover", "feedback_parallel"):
        forms = ("list", "iterator", "population") if st in ("elitism", "tournament", "parallel", "mutation", "crossover", "lexicase", "exclusive", "feedback_parallel") or T else ("list",)
        if st in ("elitism", "novelty", "tournament", "mutation", "crossover", "lexicase", "identity"):
            forms = forms + ("repeats",)
        for form in forms:
            if st == "default" and not T:
                continue  # tournament of 5 inside: 2^5 draw outcomes per winner; thorough tier only
            k_, m_ = (K, M) if st not in small else ((3, 4) if T else (2, 3))
            if st == "tournament" and not T:
                k_, m_ = 2, 2
            if form == "repeats" and st in ("mutation", "crossover"):
                k_, m_ = (3, 3) if T else (2, 3)  # the repeat pattern multiplies the per-individual mutation draws
            add("step", f"step_{st}_{form}", step=st, form=form, K=k_, M=m_, fitness="sym" if st in ("elitism",) else "const", fixed_random=(st == "default"))
    add("step", "step_randomize_parallel_two_generations", step="randomize_parallel_fixed", form="list", K=3, M=3, twice=True, timeout=300)
    add("step", "step_feedback_parallel_two_generations", step="feedback_parallel", form="list", K=2, M=2, twice=True, timeout=300)
    for init in ("standard", "generic", "halfandhalf", "full", "grow", "pigrow", "ramped", "inject"):
        add("initializer", f"init_{init}", init=init, K=3 if init in ("inject", "grow", "pigrow") and not T else K)
    if T:
        add("generations", "gp_generations_default_step", step="default", P=2, budget=3, fixed_random=True)  # budget 4: > 4500 paths (probability gates of three nested steps per individual)
    add("generations", "gp_generations_simplegp_step", step="simplegp", P=3 if T else 2, Pmin=2, budget=5 if T else 3, fixed_random=T)
    return obs
