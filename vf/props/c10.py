"""C10 - the grammar is read-only during synthesis and search."""
from __future__ import annotations

from vf.engine import synth
from vf.engine.ob import Ob
from vf.engine.sym import Ctx, FreshRandom

PROPERTY = "C10"
FUNCTIONS = [
    "tree.initializations.create_node (SynthesisException backtracking), deciders' alternative filters",
    "treebased.mutate / tree_crossover; GE / SGE / dSGE / stack mapping; grammar.get_weights",
]
ASSUMPTIONS = [
    "grammar snapshot = alternatives (dict of lists, by value and order), distanceToTerminal, recursive_prods, all_nodes, terminals, non_terminals, the weights and the @weight/@abstract attributes stored on the classes (read without calling get_weights)",
    "grammars: f5ctx (dependent refinement makes Var infeasible at top level -> backtracking), f6 (weights), f1, f4",
    "sequences of up to 2 (thorough 3) consecutive creations / operations on one grammar object",
]


def snapshot(g):
    return {
        "alternatives": {k.__name__: [c.__name__ for c in v] for k, v in g.alternatives.items()},
        "distanceToTerminal": {getattr(k, "__name__", repr(k)): v for k, v in g.distanceToTerminal.items()},
        "recursive_prods": sorted(c.__name__ for c in g.recursive_prods),
        "all_nodes": sorted(getattr(c, "__name__", repr(c)) for c in g.all_nodes),
        "terminals": sorted(getattr(c, "__name__", repr(c)) for c in g.terminals),
        "non_terminals": sorted(getattr(c, "__name__", repr(c)) for c in g.non_terminals),
        "weights": {getattr(k, "__name__", repr(k)): v for k, v in _peek_weights(g).items()},
        # what the user declared on the classes (the @weight / @abstract attributes the grammar is built from)
        "declared_class_attributes": {getattr(c, "__name__", repr(c)): dict(c.__dict__.get("__gengy__", {})) for c in g.all_nodes if isinstance(c, type) and c.__module__ != "builtins"},
    }


def _peek_weights(g):
    """the weights as get_weights() would report them, read WITHOUT calling it (reading must not be
    what changes them)"""
    return {c: (c.__dict__.get("__gengy__", {}) if isinstance(c, type) and c.__module__ != "builtins" else {}).get("weight", 1.0) for c in g.all_nodes}


def h_readonly(ctx: Ctx, cfg):
    fx, g = synth.make_grammar(ctx, cfg)
    before = ctx.concrete(snapshot, g)
    r = FreshRandom(ctx)
    from crosshair.util import NotDeterministic

    from vf.engine.sym import FuelExhausted, ReplayMismatch

    foreign = 0
    for _ in range(cfg.get("rounds", 1)):
        try:
            synth.pipeline(ctx, cfg, lambda *a: None, fxg=(fx, g), r=r)
        except (NotDeterministic, FuelExhausted, ReplayMismatch):
            raise
        except Exception as e:  # operations that fail (with whatever exception) must leave the grammar alone too
            ctx.note("operation_failed_with", type(e).__name__)
            foreign += 1
    if foreign == 0:
        # vacuity guard: a path on which the operation died with a foreign exception still has to
        # leave the grammar alone, but only paths on which it ran (or failed the library's way) prove
        # that the harness reaches the code under test
        ctx.reached()
    after = ctx.concrete(snapshot, g)
    for key in before:
        ctx.require(before[key] == after[key], f"grammar:{key}-changed", lambda: {"before": before[key], "after": after[key]})


HARNESSES = {"readonly": h_readonly}


def obligations(tier: str):
    T = tier == "thorough"
    obs = []

    def add(name, timeout=100, **cfg):
        cfg.setdefault("fuel", 200)
        cfg.setdefault("ops", [])
        obs.append(Ob("readonly", cfg, name=name, timeout=timeout * (8 if T else 1), path_timeout=60))

    for dec in ("grow", "full", "pi", "pt"):
        add(f"tree_{dec}_f5ctx_create", fixture="f5ctx", rep="tree", decider=dec, max_depth=2, fuel=200 if dec != "pt" else (12 if T else 9))
    add("tree_pt_f5ctx_mutate", fixture="f5ctx", rep="tree", decider="pt", ops=["mutate"], fuel=9)
    add("ge_pt_f5ctx_create", fixture="f5ctx", rep="ge", decider="pt", gene_length=4, fuel=30, gene_fuel=12)
    add("tree_grow_f5ctx_create_x2", fixture="f5ctx", rep="tree", decider="grow", max_depth=2, rounds=2, timeout=200)
    add("tree_grow_f5ctx_mutate", fixture="f5ctx", rep="tree", decider="grow", max_depth=2, ops=["mutate"], timeout=200)
    # (tree crossover over f5ctx: not exhausted in 2000 s under C01's identical pipeline - dropped)
    for fxn in ("f6", "f1", "f4"):
        add(f"tree_grow_{fxn}_create", fixture=fxn, rep="tree", decider="grow", max_depth=3 if fxn == "f4" else 2)
        add(f"tree_pt_{fxn}_create", fixture=fxn, rep="tree", decider="pt", fuel=10)
    add("tree_grow_f6_mutate", fixture="f6", rep="tree", decider="grow", max_depth=2, ops=["mutate"])
    add("tree_grow_f6_crossover", fixture="f6", rep="tree", decider="grow", max_depth=2, ops=["crossover"]) if T else None
    for rep in ("ge", "sge", "dsge"):
        gl = 5 if rep == "ge" else 2
        add(f"{rep}_f5ctx_create", fixture="f5ctx", rep=rep, decider="grow", max_depth=2 if rep != "dsge" else 3, gene_length=gl)
        add(f"{rep}_f6_create", fixture="f6", rep=rep, decider="grow", max_depth=2 if rep != "dsge" else 3, gene_length=gl)
        if T:
            add(f"{rep}_f5ctx_mutate", fixture="f5ctx", rep=rep, decider="grow", max_depth=2 if rep != "dsge" else 3, gene_length=3 if rep == "ge" else 2, ops=["mutate"])
    add("stack_f6_create", fixture="f6", rep="stack", gene_length=3, failures_limit=1, gene_fuel=8, timeout=150)
    add("stack_f5ctx_create", fixture="f5ctx", rep="stack", gene_length=3 if T else 2, failures_limit=1, gene_fuel=8 if T else 5, timeout=150)
    return [o for o in obs if o is not None]
