"""C14 - searches terminate and stop at the first budget check after the budget is met."""
from __future__ import annotations

from geneticengine.algorithms.gp.gp import GeneticProgramming, default_generic_programming_step
from geneticengine.algorithms.gp.operators.combinators import ParallelStep, SequenceStep
from geneticengine.algorithms.gp.operators.elitism import ElitismStep
from geneticengine.algorithms.gp.operators.mutation import GenericMutationStep
from geneticengine.algorithms.gp.operators.novelty import NoveltyStep
from geneticengine.algorithms.gp.operators.selection import TournamentSelection
from geneticengine.algorithms.gp.structure import GeneticStep
from geneticengine.algorithms.hill_climbing import HC
from geneticengine.algorithms.one_plus_one import OnePlusOne
from geneticengine.algorithms.random_search import RandomSearch
from geneticengine.evaluation.budget import AnyOf, EvaluationBudget, SearchBudget, TargetFitness
from geneticengine.problems import SingleObjectiveProblem
from geneticengine.solutions.individual import Individual

from vf.engine.ob import Ob
from vf.engine.popfix import TABLES, SymFitness, TokRep
from vf.engine.sym import Ctx, FreshRandom

PROPERTY = "C14"
FUNCTIONS = [
    "evaluation.budget.EvaluationBudget / TargetFitness / AnyOf .is_done",
    "algorithms.api.SynthesisAlgorithm.is_done; random_search / one_plus_one / hill_climbing / gp.gp search() loops",
    "evaluation.tracker.get_number_evaluations, gp.population.Population",
]
ASSUMPTIONS = [
    "evaluation budget n symbolic in [1, N] (N = 6; thorough tier: 10 for random search / (1+1) / hill climbing, 7-8 for the GP loops); population / neighbourhood sizes 1-3; opaque-token representation",
    "a loop-iteration fuel (is_done consulted more than 4*N+8 times) stands for non-termination; such a witness is replayed concretely with the same fuel",
    "wall-clock budgets (TimeBudget) are outside the claim",
    "loop_gp_mutation_then_tournament: the random draws are a fixed deterministic stream (tournament draws multiply paths and are not what the budget depends on); budget and population size stay symbolic",
]


class LoopFuel(Exception):
    pass


class Counting(SearchBudget):
    """harness-side wrapper: counts the checks and stops a run-away loop"""

    def __init__(self, inner, fuel):
        self.inner = inner
        self.calls = 0
        self.fuel = fuel
        self.evals_at_check = []

    def is_done(self, tracker):
        self.calls += 1
        self.evals_at_check.append(tracker.get_number_evaluations())
        if self.calls > self.fuel:
            raise LoopFuel()
        return self.inner.is_done(tracker)


class FreshK(GeneticStep):
    """a step yielding k_g brand-new individuals per generation and carrying over the rest"""

    def __init__(self, ctx, kmin):
        self.ctx = ctx
        self.kmin = kmin

    def iterate(self, problem, evaluator, representation, random, population, target_size, generation):
        pop = list(population)
        k = self.ctx.cint(self.kmin, target_size, "fresh")
        for j in range(target_size):
            if j < k:
                yield Individual(representation.create_genotype(random), representation)
            else:
                yield pop[j % len(pop)]


def _mk(ctx, cfg, budget):
    fit = SymFitness(ctx, TABLES[cfg.get("table", 2)]) if cfg.get("symbolic_fitness") else (lambda tok: 1.0)
    log = []
    if not cfg.get("symbolic_fitness"):
        def fit(tok, _log=log):  # noqa: F811
            _log.append(tok.k)
            return 1.0
    p = SingleObjectiveProblem(fit, minimize=False)
    rep = TokRep()
    r = FreshRandom(ctx)
    r.fixed = bool(cfg.get("fixed_random"))
    alg = cfg["alg"]
    batch = 1
    if alg == "rs":
        s = RandomSearch(p, budget, rep, r)
    elif alg == "1p1":
        s = OnePlusOne(p, budget, rep, r)
    elif alg == "hc":
        m = ctx.cint(1, cfg.get("neigh", 3), "neighbourhood")
        batch = m
        s = HC(p, budget, rep, r, number_of_mutations=m)
    else:
        pop = ctx.cint(cfg.get("popmin", 1), cfg.get("pop", 3), "population")
        batch = pop
        kind = cfg.get("step", "freshk")
        if kind == "freshk":
            step = FreshK(ctx, cfg.get("kmin", 1))
        elif kind == "mutation":
            step = GenericMutationStep(1)
        elif kind == "elitism_only":
            step = ElitismStep()
        elif kind == "mutation_then_tournament":  # selection over individuals that were never evaluated
            step = SequenceStep(GenericMutationStep(1), TournamentSelection(2))
        elif kind == "mutation_then_elitism":
            step = ParallelStep([SequenceStep(GenericMutationStep(1), ElitismStep()), NoveltyStep()], weights=[1, 1])
        elif kind == "default":
            step = default_generic_programming_step()
        else:
            step = ParallelStep([ElitismStep(), NoveltyStep(), SequenceStep(TournamentSelection(2), GenericMutationStep(1))], weights=[1, 1, 2])
        s = GeneticProgramming(p, budget, rep, r, population_size=pop, step=step)
    return s, (fit.log if cfg.get("symbolic_fitness") else log), batch


def h_eval_budget(ctx: Ctx, cfg):
    N = cfg["N"]
    n = ctx.int(1, N, "budget")
    budget = Counting(EvaluationBudget(n), fuel=4 * N + 8)
    s, log, batch = _mk(ctx, cfg, budget)
    try:
        s.search()
    except LoopFuel:
        ctx.reached()
        ctx.fail("termination:budget-never-met-within-loop-fuel", {"budget": n, "evaluations": len(log), "checks": budget.calls})
    ctx.reached()
    total = len(log)
    ctx.note("budget", n)
    ctx.require(s.tracker.get_number_evaluations() == total, "budget:counter-differs-from-invocations")
    ctx.require(total >= n, "budget:stopped-before-the-budget-was-met", lambda: {"budget": n, "total": total})
    ctx.require(total < n + batch, "budget:overshoot-beyond-one-batch", lambda: {"budget": n, "total": total, "batch": batch})
    # stops at the FIRST check at which the budget is met
    for j, e in enumerate(budget.evals_at_check[:-1]):
        ctx.require(e < n, "budget:search-continued-after-a-check-that-met-the-budget", lambda: {"check": j, "evaluations": e, "budget": n})


def h_target(ctx: Ctx, cfg):
    N = cfg["N"]
    table = [0.0, 1.0, 2.0]
    target = ctx.pick([1.0, 1.00005, 1.0002, 2.0], "target")
    minimize = ctx.bool("minimize")
    fit = SymFitness(ctx, table)
    p = SingleObjectiveProblem(fit, minimize=minimize)
    inner = AnyOf(TargetFitness(target), EvaluationBudget(N)) if cfg.get("anyof_order", "tf_first") == "tf_first" else AnyOf(EvaluationBudget(N), TargetFitness(target))
    budget = Counting(inner, fuel=4 * N + 8)
    rep = TokRep()
    alg = cfg["alg"]
    s = RandomSearch(p, budget, rep, FreshRandom(ctx)) if alg == "rs" else OnePlusOne(p, budget, rep, FreshRandom(ctx))
    try:
        s.search()
    except LoopFuel:
        ctx.reached()
        ctx.fail("termination:budget-never-met-within-loop-fuel")
    ctx.reached()
    vals = [fit.memo[k] for k in fit.log]
    # reference: first number of evaluations j at which best-so-far is within tolerance, or N
    exp = None
    for j in range(1, len(vals) + 1):
        best = (min if minimize else max)(vals[:j])
        if abs(best - target) < 0.0001 or j >= N:
            exp = j
            break
    ctx.require(exp is not None and len(vals) == exp, "budget:target-fitness-stop-point-wrong", lambda: {"values": vals, "target": target, "minimize": minimize, "stopped_after": len(vals), "expected": exp})


class Flag(SearchBudget):
    def __init__(self, v):
        self.v = v
        self.calls = 0

    def is_done(self, tracker):
        self.calls += 1
        return self.v


def h_anyof(ctx: Ctx, cfg):
    a, b = Flag(ctx.bool("a")), Flag(ctx.bool("b"))
    d = AnyOf(a, b).is_done(None)
    ctx.reached()
    ctx.require(bool(d) == (a.v or b.v), "budget:anyof-is-not-a-disjunction", lambda: {"a": a.v, "b": b.v, "anyof": d})
    ctx.require(a.calls == 1 and b.calls == (0 if a.v else 1), "budget:anyof-does-not-short-circuit", lambda: {"a_calls": a.calls, "b_calls": b.calls})


def h_eval_budget_kernel(ctx: Ctx, cfg):
    """EvaluationBudget.is_done <=> evaluations >= limit, both symbolic"""

    class T:
        def __init__(self, n):
            self.n = n

        def get_number_evaluations(self):
            return self.n

    n = ctx.int(0, cfg["B"], "evaluations")
    lim = ctx.int(0, cfg["B"], "limit")
    d = EvaluationBudget(lim).is_done(T(n))
    ctx.reached()
    ctx.require(bool(d) == (n >= lim), "budget:evaluation-budget-predicate-wrong", lambda: {"evaluations": n, "limit": lim, "is_done": d})


HARNESSES = {"eval_budget": h_eval_budget, "target": h_target, "anyof": h_anyof, "eval_budget_kernel": h_eval_budget_kernel}


def obligations(tier: str):
    T = tier == "thorough"
    N = 10 if T else 6
    obs = []

    def add(h, name, timeout=100, **cfg):
        obs.append(Ob(h, cfg, name=name, timeout=timeout * (8 if T else 1)))

    add("eval_budget_kernel", "evaluation_budget_predicate", B=10**6)
    add("anyof", "anyof_disjunction_shortcircuit")
    for alg in ("rs", "1p1", "hc"):
        add("eval_budget", f"loop_{alg}", alg=alg, N=N, neigh=3)
    add("eval_budget", "loop_gp_fresh_per_generation", alg="gp", N=N, pop=3, step="freshk", kmin=1)
    NG = 8 if T else 6  # GP loops: every generation multiplies the mutation draws (N=10 did not exhaust in 2000 s)
    add("eval_budget", "loop_gp_mutation_step", alg="gp", N=NG, pop=3, step="mutation")
    add("eval_budget", "loop_gp_elitism_novelty_mutation", alg="gp", N=7 if T else 5, pop=4, popmin=4, step="mixed")
    add("eval_budget", "loop_gp_mutation_then_tournament", alg="gp", N=7 if T else 5, pop=3, step="mutation_then_tournament", fixed_random=True)
    add("eval_budget", "loop_gp_mutation_then_elitism", alg="gp", N=N if T else 5, pop=3, popmin=2, step="mutation_then_elitism")
    add("eval_budget", "loop_gp_elitism_only", alg="gp", N=4, pop=2, step="elitism_only")
    for alg in ("rs", "1p1"):
        add("target", f"target_{alg}", alg=alg, N=4 if T else 3)
    add("target", "target_rs_budget_first", alg="rs", N=3, anyof_order="eb_first")
    return obs
