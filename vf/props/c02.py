"""C02 - refinements hold on every produced value; validate() accepts what generate() produces."""
from __future__ import annotations

import numpy as np

from geneticengine.grammar.metahandlers.dependent import Dependent
from geneticengine.grammar.metahandlers.floats import FloatList, FloatRange
from geneticengine.grammar.metahandlers.ints import IntervalRange, IntList, IntRange
from geneticengine.grammar.metahandlers.lists import ListSizeBetween, ListSizeBetweenWithoutListOperations
from geneticengine.grammar.metahandlers.strings import StringSizeBetween, WeightedStringHandler
from geneticengine.grammar.metahandlers.vars import VarRange
from geneticengine.representations import stackgggp as STACK

from vf.engine import synth
from vf.engine.ob import Ob
from vf.engine.sym import Ctx, FreshRandom
from vf.oracles import typing as OT

PROPERTY = "C02"
FUNCTIONS = [
    "grammar.metahandlers.{ints,floats,vars,lists,strings,dependent}: generate / validate of every shipped metahandler",
    "representations.tree.initializations.create_node (Annotated branch, dependent values), treebased.mutate",
    "ge / structured_ge / dynamic_structured_ge / stackgggp mapping of refined fields; stackgggp.find_element_that_meets_mh",
]
ASSUMPTIONS = [
    "refinement parameters: integers in [-6, 6] (thorough [-40, 40]), list/alphabet lengths <= 3, float parameters from a 4-value table",
    "float draws from the 3-point table (lo, mid, just below hi); FloatRange closedness at the exact upper bound is outside",
    "grammars: fixed corpus f5 (all shipped refinements), f5ctx (dependent context), f2 (sized lists), f1",
]


def check_refinements(ctx: Ctx, fx, g, p, stage: str):
    ctx.reached()
    try:
        OT.check_welltyped(p, fx.START, synth.registered_classes(fx), refinements=True, typing_=False)
    except OT.Verdict as v:
        ctx.fail(v.clause, {"stage": stage, **v.detail})
    if hasattr(fx, "typecheck"):
        ctx.require(fx.typecheck([], p), "refinement:context-variable-unbound", {"stage": stage, "program": OT.show(p)})


def h_pipeline(ctx: Ctx, cfg):
    synth.pipeline(ctx, cfg, check_refinements)


# ----------------------------------------------------------------- generator / validator agreement
def _gv(ctx: Ctx, mh, base, rec, pred, name):
    r = FreshRandom(ctx)
    v = mh.generate(r, None, base, rec, {})
    ctx.reached()
    ctx.note("value", v)
    ctx.require(pred(v), f"generate:{name}-outside-documented-predicate", lambda: {"value": OT.show(v)})
    ok = mh.validate(v)
    ctx.require(ok, f"validate:{name}-rejects-generated-value", lambda: {"value": OT.show(v)})


def h_gv_intrange(ctx: Ctx, cfg):
    B = cfg["B"]
    lo = ctx.int(-B, B, "lo")
    hi = ctx.int(-B, B, "hi")
    if not lo <= hi:
        ctx.abandon("precondition")
    ctx.note("params", [lo, hi])
    _gv(ctx, IntRange(lo, hi), int, None, lambda v: lo <= v <= hi, "IntRange")


def h_gv_intlist(ctx: Ctx, cfg):
    n = ctx.cint(1, cfg["n"], "n")
    els = [ctx.int(-cfg["B"], cfg["B"], "el") for _ in range(n)]
    _gv(ctx, IntList(els), int, None, lambda v: any(v == e for e in els), "IntList")


FT = [-1.5, 0.0, 0.25, 1.0 / 3.0, 0.1234567, 3.0]


def h_gv_floatrange(ctx: Ctx, cfg):
    lo = ctx.pick(FT, "lo")
    hi = ctx.pick(FT, "hi")
    if not lo <= hi:
        ctx.abandon("precondition")
    _gv(ctx, FloatRange(lo, hi), float, None, lambda v: lo <= v <= hi and type(v) is float, "FloatRange")


def h_gv_floatlist(ctx: Ctx, cfg):
    n = ctx.cint(1, cfg["n"], "n")
    els = [ctx.pick(FT[1:5], "el") for _ in range(n)]
    _gv(ctx, FloatList(els), float, None, lambda v: v in els, "FloatList")


def h_gv_varrange(ctx: Ctx, cfg):
    n = ctx.cint(1, cfg["n"], "n")
    opts = ["x", "y", "zz"][:n]
    _gv(ctx, VarRange(opts), str, None, lambda v: v in opts, "VarRange")


def h_gv_listsize(ctx: Ctx, cfg):
    lo = ctx.int(0, cfg["L"], "lo")
    hi = ctx.int(0, cfg["L"], "hi")
    if not lo <= hi:
        ctx.abandon("precondition")
    cls = ListSizeBetween if cfg.get("ops", True) else ListSizeBetweenWithoutListOperations
    _gv(ctx, cls(lo, hi), list[int], lambda t: 7, lambda v: isinstance(v, list) and lo <= len(v) <= hi and all(e == 7 for e in v), cls.__name__)


def h_gv_stringsize(ctx: Ctx, cfg):
    lo = ctx.int(0, cfg["L"], "lo")
    hi = ctx.int(0, cfg["L"], "hi")
    if not lo <= hi:
        ctx.abandon("precondition")
    alpha = ctx.pick(["a", "ab"], "alphabet")
    _gv(ctx, StringSizeBetween(lo, hi, alpha), str, None, lambda v: type(v) is str and lo <= len(v) <= hi and all(c in alpha for c in v), "StringSizeBetween")


MATRICES = [
    np.array([[0.5, 0.5, 0.0], [0.0, 1.0, 0.0]]),
    np.array([[0.0, 0.0, 1.0]]),
    np.array([[0.2, 0.3, 0.5], [1.0, 0.0, 0.0], [0.0, 0.5, 0.5]]),
    np.array([[1.0, 0.0]]),
]


def h_gv_weightedstring(ctx: Ctx, cfg):
    m = MATRICES[cfg["matrix"]]
    alpha = ["A", "C", "G"][: m.shape[1]]
    mh = WeightedStringHandler(m, alpha)

    def pred(v):
        if not (type(v) is str and len(v) == m.shape[0] and all(c in alpha for c in v)):
            return False
        return all(float(m[i][alpha.index(c)]) > 0.0 for i, c in enumerate(v))

    _gv(ctx, mh, str, None, pred, "WeightedStringHandler")


def h_gv_interval(ctx: Ctx, cfg):
    B = cfg["B"]
    a = ctx.int(0, B, "minlen")
    b = ctx.int(0, B, "maxlen")
    top = ctx.int(0, B + 2, "top")
    if not (b > a and b < top):  # the constructor's own asserts
        ctx.abandon("precondition")
    ctx.note("params", [a, b, top])
    mh = IntervalRange(a, b, top)
    _gv(ctx, mh, tuple[int, int], None, lambda v: type(v) is tuple and a <= v[1] - v[0] <= b and 0 <= v[0] and v[1] <= top, "IntervalRange")


def h_gv_dependent(ctx: Ctx, cfg):
    """Dependent.generate delegates to the metahandler computed from the actual sibling values;
    its own validate() is the public membership test"""
    s = ctx.int(-3, 3, "sibling")
    mh = Dependent("a", lambda a: IntRange(a, a + 2))
    r = FreshRandom(ctx)

    def rec(t):
        inner = t.__metadata__[0]
        return inner.generate(r, None, int, None, {})

    v = mh.generate(r, None, int, rec, {"a": s})
    ctx.reached()
    ctx.require(s <= v <= s + 2, "generate:Dependent-outside-documented-predicate", lambda: {"sibling": s, "value": v})
    try:
        ok = mh.validate(v)
    except NotImplementedError:
        ctx.fail("validate:Dependent-raises-NotImplementedError", {"sibling": s, "value": v})
    ctx.require(ok, "validate:Dependent-rejects-generated-value")


def h_redeclared(ctx: Ctx, cfg):
    """a refinement re-declared between two extractions from the same classes: programs made from
    the second grammar satisfy the declaration that is current when it is extracted"""
    from vf.fixtures import f17

    lo1, lo2 = ctx.cint(0, 2, "first_lo"), ctx.cint(3, 5, "second_lo")
    r = FreshRandom(ctx)
    try:
        for lo in (lo1, lo2):
            g = ctx.concrete(lambda: (f17.declare(lo, lo + 1), f17.grammar())[1])
            rep = synth.make_rep(cfg, g, r)
            p = rep.genotype_to_phenotype(rep.create_genotype(r))
            ctx.reached()
            try:
                OT.check_welltyped(p, f17.START, synth.registered_classes(f17))
            except OT.Verdict as e:
                ctx.fail(e.clause, dict(e.detail, declared=[lo, lo + 1], first_declaration=[lo1, lo1 + 1]))
    finally:
        f17.declare(0, 1)


def h_stack_find(ctx: Ctx, cfg):
    """find_element_that_meets_mh over a symbolic base-type stack"""
    n = ctx.cint(0, cfg["n"], "n")
    stack = [ctx.int(-5, 5, "el") for _ in range(n)]
    mh = IntRange(0, 2)
    try:
        i = STACK.find_element_that_meets_mh(stack, mh)
    except IndexError:
        ctx.reached()
        ctx.require(not any(0 <= e <= 2 for e in stack), "stack:find-misses-valid-element")
        return
    ctx.reached()
    ctx.require(0 <= i < n and 0 <= stack[i] <= 2, "stack:find-returns-invalid-element", lambda: {"stack": stack, "i": i})


HARNESSES = {f.__name__[2:]: f for f in list(globals().values()) if callable(f) and getattr(f, "__name__", "").startswith("h_")}


def obligations(tier: str):
    T = tier == "thorough"
    B = 40 if T else 6
    obs = []

    def gv(h, name=None, timeout=100, **cfg):
        obs.append(Ob(h, cfg, name=name or h, timeout=timeout * (6 if T else 1)))

    gv("gv_intrange", B=B)
    gv("gv_intlist", B=B, n=4 if T else 3)
    gv("gv_floatrange")
    gv("gv_floatlist", n=3)
    gv("gv_varrange", n=3)
    gv("gv_listsize", L=5 if T else 3, ops=True)
    gv("gv_listsize", name="gv_listsize_noops", L=5 if T else 3, ops=False)
    gv("gv_stringsize", L=4 if T else 3)
    for k in range(len(MATRICES)):
        gv("gv_weightedstring", name=f"gv_weightedstring_m{k}", matrix=k)
    gv("gv_interval", B=8 if T else 5)
    gv("gv_dependent")
    gv("stack_find", n=4 if T else 3)

    def pipe(name, timeout=100, **cfg):
        cfg.setdefault("fuel", 200)
        cfg.setdefault("ops", [])
        obs.append(Ob("pipeline", cfg, name=name, timeout=timeout * (8 if T else 1), path_timeout=60))

    for cls in ("RI", "RF", "RS", "RW", "RV", "RD", "RL", "RD2"):
        pipe(f"tree_f5_{cls}_create", fixture="f5", grammar_fn="g_" + cls, rep="tree", decider="grow", max_depth=2)
    pipe("tree_f5ctx_create", fixture="f5ctx", rep="tree", decider="grow", max_depth=3 if T else 2)
    if T:
        pipe("tree_f5ctx_mutate", fixture="f5ctx", rep="tree", decider="grow", max_depth=2, ops=["mutate"], fuel=40)
    pipe("tree_f5_RD_mutate", fixture="f5", grammar_fn="g_RD", rep="tree", decider="grow", max_depth=2, ops=["mutate"])
    for rp in ("tree", "ge", "sge"):
        obs.append(Ob("redeclared", {"rep": rp, "decider": "grow", "max_depth": 2, "gene_length": 4 if rp == "ge" else 1, "fuel": 100}, name=f"{rp}_f17_refinement_redeclared", timeout=100 * (8 if T else 1)))
    pipe("tree_f2_create", fixture="f2", rep="tree", decider="grow", max_depth=2)
    for v in ("UI", "LL", "ND", "TL"):
        pipe(f"tree_f14_{v}_create", fixture="f14", grammar_fn="g_" + v, rep="tree", decider="grow", max_depth=2)
    pipe("ge_f14_create", fixture="f14", rep="ge", decider="grow", max_depth=2, gene_length=5)
    pipe("tree_f3n_create", fixture="f3n", rep="tree", decider="grow", max_depth=3)
    pipe("ge_f3n_create", fixture="f3n", rep="ge", decider="grow", max_depth=3, gene_length=6)
    # (tree crossover over the list fixture f2: 870 paths without a failing one, not exhausted in 2000 s - dropped)
    for rep in ("ge", "sge", "dsge"):
        gl = 6 if rep == "ge" else 2
        for cls in ("RI", "RD", "RD2", "RS") + (("RW", "RV", "RL") if T else ()):  # RF: a float computed from symbolic genes never confirms (CrossHair's real-based float model)
            pipe(f"{rep}_f5_{cls}_create", fixture="f5", grammar_fn="g_" + cls, rep=rep, decider="grow", max_depth=3, gene_length=gl)
        pipe(f"{rep}_f2_create", fixture="f2", rep=rep, decider="grow", max_depth=2 if rep != "dsge" else 3, gene_length=gl)
    pipe("stackp_f1p_postponed_annotations_create", fixture="f1p", rep="stack", gene_length=6 if T else 4, failures_limit=1, gene_fuel=12 if T else 7, timeout=150)
    pipe("stack_f1_create", fixture="f1", rep="stack", gene_length=3 if not T else 4, failures_limit=1, gene_fuel=8 if not T else 12, timeout=150)
    return [o for o in obs if o is not None]
