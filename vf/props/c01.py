"""C01 - every program the library produces is well-typed for its grammar."""
from __future__ import annotations

from vf.engine.ob import Ob
from vf.engine.sym import Ctx, FreshRandom
from vf.engine import synth
from vf.oracles import typing as OT

PROPERTY = "C01"
FUNCTIONS = [
    "representations.tree.initializations.create_node/apply_constructor/wrap_result + deciders",
    "representations.tree.treebased.random_node/random_tree/mutate/tree_mutate/tree_crossover",
    "grammatical_evolution.ge/structured_ge/dynamic_structured_ge create_genotype/genotype_to_phenotype/mutate/crossover",
    "stackgggp.create_tree_using_stacks/mutate/crossover",
    "grammar.grammar.extract_grammar (concrete, per path)",
]
ASSUMPTIONS = [
    "grammars: fixed corpus vf/fixtures f1,f2,f2b,f3,f4,f5,f5ctx (classes cannot be symbolic)",
    "float/normalvariate draws come from 3-point tables (lo, mid, just-below-hi); magnitudes outside",
    "paths that exhaust the draw fuel or gene-read fuel are abandoned and counted (abandoned_by_bound)",
    "library error types accepted as failure of creation: GeneticEngineError, SynthesisException",
]


def check_program(ctx: Ctx, fx, g, p, stage: str):
    ctx.reached()
    try:
        OT.check_welltyped(p, fx.START, synth.registered_classes(fx), refinements=False)
    except OT.Verdict as v:
        ctx.fail(v.clause, {"stage": stage, **v.detail})


def h_pipeline(ctx: Ctx, cfg):
    """create -> map -> (mutate | crossover)* ; every phenotype is checked"""
    synth.pipeline(ctx, cfg, check_program)


def h_stack_lasso(ctx: Ctx, cfg):
    """the stack mapper's loop has no iteration bound of its own: on a short periodic genome it must
    still return a program or raise the library's error.  Symbolic exploration: more than
    `reads` gene reads without either is reported; the concrete replay lets the same genome run up
    to 100000 reads before calling it non-termination."""
    from geneticengine.representations import stackgggp as STACK

    from vf.engine.sym import FuelList, sym_genes

    fx, g = synth.make_grammar(ctx, cfg)
    n = ctx.cint(1, cfg["genes"], "genes")
    genes = sym_genes(ctx, n, hi=cfg.get("gene_max", 10**6))
    cap = cfg["reads"] if ctx.mode == "sym" else 100000
    dna = FuelList(genes, ctx, cap, fail_clause="termination:stack-mapper-neither-returns-nor-fails-on-a-periodic-genome")
    rep = STACK.StackBasedGGGPRepresentation(g, gene_length=n, failures_limit=cfg.get("failures_limit", 3))
    try:
        p = rep.genotype_to_phenotype(STACK.Genotype(dna))
    except synth.LIBRARY_ERRORS:
        ctx.reached()
        return
    ctx.reached()
    check_program(ctx, fx, g, p, "map")


HARNESSES = {"pipeline": h_pipeline, "stack_lasso": h_stack_lasso}


def obligations(tier: str):
    T = tier == "thorough"
    obs = []

    def add(name, timeout=100, **cfg):
        cfg.setdefault("fuel", 200)
        cfg.setdefault("ops", [])
        obs.append(Ob("pipeline", cfg, name=name, timeout=(timeout * 8 if T else timeout), path_timeout=60))

    # --- tree representation: every decider, creation
    for dec in ("grow", "full", "pi", "pt"):
        if dec == "pt":  # no depth limit of its own: the draw fuel is the bound
            for fxn in ("f1", "f3", "f2", "f4", "f3b", "f5ctx") + (("f2b", "f5") if T else ()):
                add(f"tree_pt_{fxn}_create", fixture=fxn, rep="tree", decider="pt", fuel=16 if T else 11)
            continue
        add(f"tree_{dec}_f1_create", fixture="f1", rep="tree", decider=dec, max_depth=3)
        add(f"tree_{dec}_f3_create", fixture="f3", rep="tree", decider=dec, max_depth=3)
        if T or dec in ("grow",):
            add(f"tree_{dec}_f2_create", fixture="f2", rep="tree", decider=dec, max_depth=2)
            add(f"tree_{dec}_f4_create", fixture="f4", rep="tree", decider=dec, max_depth=3 if not T else 4)
            add(f"tree_{dec}_f3b_create", fixture="f3b", rep="tree", decider=dec, max_depth=2, timeout=200)
            add(f"tree_{dec}_f5ctx_create", fixture="f5ctx", rep="tree", decider=dec, max_depth=3)
            if dec == "grow":
                add("tree_grow_f16_create", fixture="f16", rep="tree", decider="grow", max_depth=2)
                add("tree_grow_f15_create", fixture="f15", rep="tree", decider="grow", max_depth=3)
                add("tree_grow_f15_mutate", fixture="f15", rep="tree", decider="grow", max_depth=3, ops=["mutate"])
        if T:
            add(f"tree_{dec}_f2b_create", fixture="f2b", rep="tree", decider=dec, max_depth=2)
            add(f"tree_{dec}_f5_create", fixture="f5", rep="tree", decider=dec, max_depth=2)
    # --- union scoping (sibling names re-occurring in the alternatives) and standalone union members
    for dec in ("grow", "full") + (("pi",) if T else ()):
        add(f"tree_{dec}_f3n_create", fixture="f3n", rep="tree", decider=dec, max_depth=3)
        add(f"tree_{dec}_f9_create", fixture="f9", rep="tree", decider=dec, max_depth=3 if not T else 4)
    for rep in ("ge", "sge", "dsge"):
        add(f"{rep}_f3n_create", fixture="f3n", rep=rep, decider="grow", max_depth=3 if rep != "dsge" else 4, gene_length=6 if rep == "ge" else 2)
    for v in ("UI", "LL", "ND", "TL"):
        add(f"tree_grow_f14_{v}_create", fixture="f14", grammar_fn="g_" + v, rep="tree", decider="grow", max_depth=2)
        add(f"ge_f14_{v}_create", fixture="f14", grammar_fn="g_" + v, rep="ge", decider="grow", max_depth=2, gene_length=5)
    add("dsge_f14_create", fixture="f14", rep="dsge", max_depth=3)
    add("sge_f14_create", fixture="f14", rep="sge", decider="grow", max_depth=2, gene_length=2)
    add("tree_grow_f5_RV_refined_tuple_create", fixture="f5", grammar_fn="g_RV", rep="tree", decider="grow", max_depth=2)
    add("ge_f5_RV_refined_tuple_create", fixture="f5", grammar_fn="g_RV", rep="ge", decider="grow", max_depth=2, gene_length=4)
    add("tree_grow_f11_concrete_start_crossover", fixture="f11", rep="tree", decider="grow", max_depth=3, ops=["crossover"])
    add("tree_grow_f1p_postponed_annotations_create", fixture="f1p", rep="tree", decider="grow", max_depth=3)
    add("sge_f1p_postponed_annotations_create", fixture="f1p", rep="sge", decider="grow", max_depth=2, gene_length=2)
    from vf.fixtures import family

    for k in family.interesting(3, 300, every=30 if T else 90):
        add(f"tree_grow_family{k}_create", fixture="family", index=k, rep="tree", decider="grow", max_depth=3)
        add(f"ge_family{k}_create", fixture="family", index=k, rep="ge", decider="grow", max_depth=3, gene_length=6)
    # --- tree variation operators
    for fxn in ("f1", "f3") + (("f2", "f4", "f5ctx") if T else ()):
        add(f"tree_grow_{fxn}_mutate", fixture=fxn, rep="tree", decider="grow", max_depth=2, ops=["mutate"])
        if (fxn == "f3" and not T) or fxn in ("f2", "f5ctx"):  # f2 / f5ctx crossover: not exhausted in 2000 s
            continue  # two programs over 9 productions with base-type fields: > 250 s; thorough tier (f11 / f1 / f0 crossover stay quick)
        add(f"tree_grow_{fxn}_crossover", fixture=fxn, rep="tree", decider="grow", max_depth=2, ops=["crossover"])
    if T:
        add("tree_grow_f1_mutate_crossover", fixture="f1", rep="tree", decider="grow", max_depth=2, ops=["mutate", "crossover"])
        add("tree_grow_f1_crossover_mutate", fixture="f1", rep="tree", decider="grow", max_depth=2, ops=["crossover", "mutate"])
    # --- genotype representations
    for rep in ("ge", "sge", "dsge"):
        gl = 6 if rep == "ge" else 2
        md = 3 if rep != "dsge" else 4
        add(f"{rep}_f1_create", fixture="f1", rep=rep, decider="grow", max_depth=md if rep != "dsge" else 3, gene_length=gl)
        add(f"{rep}_f3_create", fixture="f3", rep=rep, decider="grow", max_depth=md, gene_length=gl)
        if rep == "dsge":
            add(f"{rep}_f3b_create", fixture="f3b", rep=rep, decider="grow", max_depth=2, gene_length=gl)
        else:  # one bare base type at a time (the three multiply: wide-range int synthesis alone has ~440 paths)
            for v in ("BI", "BS"):  # (BFB - a float from two gene-backed draws x bool - did not exhaust in 5000 s; tree / dSGE cover it, C08 f3f covers GE floats)
                add(f"{rep}_f3b_{v}_create", fixture="f3b", grammar_fn="g_" + v, rep=rep, decider="grow", max_depth=2, gene_length=gl, timeout=250)
        add(f"{rep}_f2_create", fixture="f2", rep=rep, decider="grow", max_depth=2 if rep != "dsge" else 3, gene_length=gl)
        # GE / SGE / stack genes are fully symbolic already at creation, so mapping created genotypes
        # covers every genotype of that shape; variation only matters where it changes shape or gene
        # ranges (dSGE) - the others run in the thorough tier.
        if T or rep == "dsge":
            add(f"{rep}_f0_mutate", fixture="f0", rep=rep, decider="grow", max_depth=2 if rep != "dsge" else 3, gene_length=3 if rep == "ge" else 2, ops=["mutate"])
            add(f"{rep}_f0_crossover", fixture="f0", rep=rep, decider="grow", max_depth=2 if rep != "dsge" else 3, gene_length=3 if rep == "ge" else 2, ops=["crossover"])
        if T:
            for dec in ("full", "pi", "pt"):
                if rep != "dsge":
                    add(f"{rep}_{dec}_f1_create", fixture="f1", rep=rep, decider=dec, max_depth=3, gene_length=gl)
            add(f"{rep}_f4_create", fixture="f4", rep=rep, decider="grow", max_depth=4, gene_length=gl)
            # (the whole refinement fixture f5 under GE / SGE ends "not confirmed": numpy-backed
            # WeightedStringHandler realises symbolic genes; C02 decides f5 production by production)
    obs.append(Ob("stack_lasso", {"fixture": "f0", "genes": 2, "reads": 40, "failures_limit": 2, "fuel": 30}, name="stack_mapper_terminates_on_short_genomes_f0", timeout=120, stop_after_known=True, smoke=0))
    # --- stack representation (fuel-bounded: see DESIGN C01/C07)
    add("stack_f1_create", fixture="f1", rep="stack", gene_length=3 if not T else 4, failures_limit=1, gene_fuel=8 if not T else 12, timeout=150)
    if T:
        # (stack over f3 never completes a program within 14 gene reads: nothing to check - removed;
        # stack crossover of two 3-gene genomes followed by two mappings: 3500+ paths, not exhausted in 3000 s)
        add("stack_f0_mutate", fixture="f0", rep="stack", gene_length=3, failures_limit=1, gene_fuel=8, ops=["mutate"], timeout=150)
        # (with 2 genes / 6 reads the crossed-over genomes never map to a program: the reachability twin
        # reports the obligation vacuous - dropped; C06 checks stack crossover at the genotype level)
    return obs
