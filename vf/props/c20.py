"""C20 - the CSV search log is faithful and is a valid prefix at every interruption point."""
from __future__ import annotations

import os

from geneticengine.evaluation.recorder import CSVSearchRecorder
from geneticengine.evaluation.sequential import SequentialEvaluator
from geneticengine.evaluation.tracker import MultiObjectiveProgressTracker, SingleObjectiveProgressTracker
from geneticengine.problems import MultiObjectiveProblem, SingleObjectiveProblem
from geneticengine.solutions.individual import Individual

from vf.engine.ob import Ob
from vf.engine.popfix import TABLES, SymFitness, TokRep
from vf.engine.sym import Ctx

PROPERTY = "C20"
FUNCTIONS = [
    "evaluation.recorder.CSVSearchRecorder.__init__ / register (default fields, user fields, extra fields)",
    "evaluation.tracker.SingleObjectiveProgressTracker.post_process / MultiObjectiveProgressTracker.evaluate (is_best flags handed to the recorder)",
    "geml.simplegp.SimpleGP.build_recorder (wrapping of user extra-field callbacks)",
]
ASSUMPTIONS = [
    "the file is written for real on every path (open / csv.writer are C code) and re-read and parsed by an independent splitter after EVERY registration; cell values contain no separators or quotes",
    "1-3 objectives, fitness components from a table of 2-3 distinct floats, 2-3 (thorough 4) registrations, both recording modes, 0-2 extra fields",
    "a kill DURING writerow of a row larger than the stdio buffer, and fsync-level durability, are outside the claim (rows here are tens of bytes)",
]

WORK = os.path.join(os.path.dirname(os.path.dirname(os.path.dirname(os.path.abspath(__file__)))), ".work")


def _parse(path):
    """independent reader: returns (lines, complete) - no csv module"""
    with open(path, "rb") as f:
        data = f.read()
    text = data.decode("utf-8")
    complete = text == "" or text.endswith("\n")
    rows = [ln.rstrip("\r").split(",") for ln in text.split("\n") if ln != ""]
    return rows, complete


def _check_file(ctx, path, header, expected_rows, where):
    rows, complete = _parse(path)
    ctx.require(complete, "csv:file-does-not-end-with-a-complete-line", {"where": where})
    ctx.require(len(rows) >= 1 and rows[0] == header, "csv:header-wrong", lambda: {"where": where, "found": rows[0] if rows else None, "expected": header})
    for r in rows[1:]:
        ctx.require(len(r) == len(header), "csv:row-arity-differs-from-header", lambda: {"where": where, "row": r})
    ctx.require(len(rows) - 1 == len(expected_rows), "csv:number-of-rows-wrong", lambda: {"where": where, "rows": len(rows) - 1, "expected": len(expected_rows)})
    for r, exp in zip(rows[1:], expected_rows):
        for col, want in exp.items():
            j = header.index(col)
            got = r[j]
            ok = (float(got) == want) if isinstance(want, float) else (got == want)
            ctx.require(ok, "csv:cell-does-not-belong-to-the-registered-individual", lambda: {"where": where, "column": col, "found": got, "expected": want, "row": r})


def h_recorder(ctx: Ctx, cfg):
    os.makedirs(WORK, exist_ok=True)
    path = os.path.join(WORK, f"c20-{os.getpid()}.csv")
    nobj = cfg["objectives"]
    only_best = ctx.bool("only_record_best") if cfg.get("mode") is None else cfg["mode"] == "best"
    fit = SymFitness(ctx, TABLES[cfg.get("table", 2)], components=nobj if nobj > 1 else 0)
    if nobj == 1:
        problem = SingleObjectiveProblem(fit, minimize=ctx.bool("minimize"))
    else:
        problem = MultiObjectiveProblem([False] * nobj, fit)
    rep = TokRep()
    n_extra = cfg.get("extra", 0)
    names = ["TagA", "TagB"][:n_extra]

    def mk(tag):
        return lambda ph: f"{tag}-{ph.k}"

    user_cbs = {n: mk(n) for n in names}
    via = cfg.get("via", "recorder")
    if via == "simplegp":
        from geml.simplegp import SimpleGP

        tracker = SimpleGP.build_recorder(None, problem, path, only_record_best_individuals=only_best, parallel_evaluation=False, csv_extra_fields=user_cbs or None)
        rec = tracker.recorders[0]
    else:
        extra = {n: (lambda t, i, p, _f=f: _f(i.get_phenotype())) for n, f in user_cbs.items()} or None
        custom = None
        if cfg.get("custom_fields"):
            custom = {"Prog": lambda t, i, p: repr(i.get_phenotype()), "F0": lambda t, i, p: i.get_fitness(p).fitness_components[0]}
        rec = CSVSearchRecorder(path, problem, fields=custom, extra_fields=extra, only_record_best_individuals=only_best)
        T = SingleObjectiveProgressTracker if nobj == 1 else MultiObjectiveProgressTracker
        tracker = T(problem, SequentialEvaluator(), [rec])
    header = ["Execution Time", "Phenotype"] + [f"Fitness{c}" for c in range(nobj)] + names
    if cfg.get("custom_fields") and via != "simplegp":
        header = ["Prog", "F0"] + names
    try:
        _check_file(ctx, path, header, [], "after construction")
        expected = []
        flags = []

        class Spy:
            def register(self, tracker, individual, problem, is_best):
                flags.append(is_best)

        tracker.recorders.append(Spy())
        for j in range(cfg["n"]):
            ind = Individual(rep.create_genotype(None), rep)
            tracker.evaluate([ind])
            ctx.reached()
            if flags[-1] or not only_best:
                v = fit.value_of(ind.genotype)
                comps = list(v) if nobj > 1 else [v]
                if cfg.get("custom_fields") and via != "simplegp":
                    row = {"Prog": repr(ind.genotype), "F0": float(comps[0])}
                else:
                    row = {"Phenotype": repr(ind.genotype)}
                    for c in range(nobj):
                        row[f"Fitness{c}"] = float(comps[c])
                for n in names:
                    row[n] = f"{n}-{ind.genotype.k}"
                expected.append(row)
            _check_file(ctx, path, header, expected, f"after registration {j}")
    finally:
        try:
            rec.csv_file.close()
        except Exception:
            pass
        try:
            os.remove(path)
        except OSError:
            pass


HARNESSES = {"recorder": h_recorder}


def obligations(tier: str):
    T = tier == "thorough"
    obs = []

    def add(name, timeout=100, **cfg):
        obs.append(Ob("recorder", cfg, name=name, timeout=timeout * (8 if T else 1)))

    n = 4 if T else 3
    add("single_objective", objectives=1, n=n, table=3)
    add("two_objectives", objectives=2, n=2 if not T else 3, table=2)
    add("three_objectives", objectives=3, n=2, table=2, mode="all")
    add("single_objective_one_extra_field", objectives=1, n=2, extra=1)
    add("two_objectives_two_extra_fields", objectives=2, n=2, extra=2, mode="all")
    add("custom_fields_only", objectives=1, n=2, custom_fields=True)
    add("custom_fields_and_two_extra_fields", objectives=2, n=2, extra=2, custom_fields=True, mode="all")
    add("simplegp_one_extra_field", objectives=1, n=2, extra=1, via="simplegp")
    add("simplegp_two_extra_fields", objectives=1, n=2, extra=2, via="simplegp")
    add("simplegp_two_objectives_two_extra_fields", objectives=2, n=2, extra=2, via="simplegp", mode="all")
    return obs
