"""C16 - elitism keeps the best: top-k selection and monotone best fitness."""
from __future__ import annotations

from geneticengine.algorithms.gp.operators.combinators import ParallelStep, SequenceStep
from geneticengine.algorithms.gp.operators.elitism import ElitismStep
from geneticengine.algorithms.gp.operators.mutation import GenericMutationStep
from geneticengine.algorithms.gp.operators.novelty import NoveltyStep
from geneticengine.algorithms.gp.operators.selection import TournamentSelection
from geneticengine.evaluation.sequential import SequentialEvaluator
from geneticengine.problems import MultiObjectiveProblem, SingleObjectiveProblem
from geneticengine.problems.helpers import best_individual, is_better, sort_population
from geneticengine.solutions.individual import Individual

from vf.engine.ob import Ob
from vf.engine.popfix import TABLES, SymFitness, TokRep
from vf.engine.sym import Ctx, FreshRandom

PROPERTY = "C16"
FUNCTIONS = [
    "gp.operators.elitism.ElitismStep.iterate, problems.helpers.sort_population / best_individual / is_better",
    "problems.SingleObjectiveProblem.evaluate (sign of the maximising aggregate), MultiObjectiveProblem default aggregate",
    "gp.operators.combinators.ParallelStep (one generation with an elitism slot)",
]
ASSUMPTIONS = [
    "fitness of every individual: symbolic selector into a table of 3 distinct values (all weak orders with ties); duplicates of one individual object allowed",
    "population 4 (thorough 5), elite count k symbolic in [1, population]; both optimisation directions",
    "monotone best fitness is an inductive one-generation statement (best of next generation >= best of current) and relies on C15 for the slot sizes",
]


def _agg(v, minimize):
    return -v if minimize else v


class _AggFit:
    """multi-objective stand-in: the elitism order is by the default aggregate (signed sum)"""

    def __init__(self, fit, minimize):
        self.fit, self.minimize = fit, minimize

    def value_of(self, tok):
        v = self.fit.value_of(tok)
        return sum(-x if m else x for x, m in zip(v, self.minimize))


def _mk(ctx, cfg):
    if cfg.get("objectives", 1) > 1:
        n = cfg["objectives"]
        ms = [ctx.bool("minimize") for _ in range(n)]
        raw = SymFitness(ctx, TABLES[2], components=n)
        problem = MultiObjectiveProblem(list(ms), raw)
        rep = TokRep()
        inds = [Individual(rep.create_genotype(None), rep) for _ in range(cfg["M"])]
        return False, _AggFit(raw, ms), problem, rep, inds
    minimize = ctx.bool("minimize")
    fit = SymFitness(ctx, TABLES[cfg.get("table", 3)])
    problem = SingleObjectiveProblem(fit, minimize=minimize)
    rep = TokRep()
    m = cfg["M"]
    inds = [Individual(rep.create_genotype(None), rep) for _ in range(m)]
    if cfg.get("duplicates") and ctx.bool("dup"):
        inds[-1] = inds[0]
    return minimize, fit, problem, rep, inds


def h_elitism(ctx: Ctx, cfg):
    minimize, fit, problem, rep, inds = _mk(ctx, cfg)
    k = ctx.cint(1, len(inds), "k")
    form = cfg.get("form", "list")
    pop = list(inds) if form == "list" else iter(list(inds))
    out = list(ElitismStep().apply(problem, SequentialEvaluator(), rep, None, pop, k, 1))
    ctx.reached()
    ctx.require(len(out) == k, "elitism:not-exactly-k", lambda: {"k": k, "yielded": len(out)})
    for o in out:
        ctx.require(any(o is i for i in inds), "elitism:returns-non-member")
    # multiplicity: never more copies than the population holds
    for i in inds:
        ctx.require(sum(1 for o in out if o is i) <= sum(1 for j in inds if j is i), "elitism:individual-returned-more-often-than-present")
    excluded = []
    pool = list(out)
    for i in inds:
        hit = [q for q, o in enumerate(pool) if o is i]
        if hit:
            pool.pop(hit[0])
        else:
            excluded.append(i)
    for e in excluded:
        for o in out:
            ctx.require(not (_agg(fit.value_of(e.genotype), minimize) > _agg(fit.value_of(o.genotype), minimize)), "elitism:excluded-individual-strictly-better-than-an-elite", lambda: {"minimize": minimize, "k": k, "values": [fit.value_of(i.genotype) for i in inds], "elite": [o.genotype.k for o in out], "excluded": e.genotype.k})


def h_helpers(ctx: Ctx, cfg):
    minimize, fit, problem, rep, inds = _mk(ctx, cfg)
    SequentialEvaluator().evaluate(problem, inds)
    s = sort_population(list(inds), problem)
    b = best_individual(list(inds), problem)
    ctx.reached()
    ag = [_agg(fit.value_of(i.genotype), minimize) for i in s]
    ctx.require(all(ag[j] >= ag[j + 1] for j in range(len(ag) - 1)), "helpers:sort_population-not-best-first", lambda: {"minimize": minimize, "sorted": [fit.value_of(i.genotype) for i in s]})
    ctx.require(len(s) == len(inds) and all(sum(1 for x in s if x is i) == sum(1 for x in inds if x is i) for i in inds), "helpers:sort_population-not-a-permutation")
    ctx.require(_agg(fit.value_of(b.genotype), minimize) == max(ag), "helpers:best_individual-not-best")
    a, c = inds[0], inds[1]
    ctx.require(is_better(problem, a, c) == (_agg(fit.value_of(a.genotype), minimize) > _agg(fit.value_of(c.genotype), minimize)), "helpers:is_better-wrong")


def h_generation(ctx: Ctx, cfg):
    """one generation of a step that reserves an elitism slot: the best aggregate does not get worse"""
    minimize, fit, problem, rep, inds = _mk(ctx, cfg)
    m = len(inds)
    we, wn, wr = ctx.cint(1, 2, "w_elitism"), ctx.cint(0, 1, "w_novelty"), ctx.cint(0, 1, "w_rest")
    step = ParallelStep([ElitismStep(), NoveltyStep(), SequenceStep(TournamentSelection(2), GenericMutationStep(1))], weights=[we, wn, wr])
    ranges = step.compute_ranges(list(inds), m)
    if ranges[0][1] - ranges[0][0] < 1:
        ctx.abandon("precondition:no-elitism-slot")
    ev = SequentialEvaluator()
    ev.evaluate(problem, inds)
    out = list(step.apply(problem, ev, rep, FreshRandom(ctx), list(inds), m, 1))
    ev.evaluate(problem, out)
    ctx.reached()
    cur = max(_agg(fit.value_of(i.genotype), minimize) for i in inds)
    nxt = max(_agg(fit.value_of(o.genotype), minimize) for o in out)
    ctx.require(nxt >= cur, "elitism:best-fitness-got-worse-across-a-generation", lambda: {"minimize": minimize, "current": [fit.value_of(i.genotype) for i in inds], "next": [fit.value_of(o.genotype) for o in out], "weights": [we, wn, wr]})


def h_run_monotone(ctx: Ctx, cfg):
    """a real GP run whose step reserves an elitism slot: the best aggregate present in the
    population never decreases from one generation to the next"""
    from geneticengine.algorithms.gp.gp import GeneticProgramming
    from geneticengine.algorithms.gp.population import Population
    from geneticengine.evaluation.budget import EvaluationBudget

    minimize = ctx.bool("minimize")
    fit = SymFitness(ctx, TABLES[2])
    problem = SingleObjectiveProblem(fit, minimize=minimize)
    rep = TokRep()
    P = cfg["P"]
    step = ParallelStep([ElitismStep(), GenericMutationStep(1)], weights=[1, P - 1])
    gp = GeneticProgramming(problem, EvaluationBudget(cfg["budget"]), rep, FreshRandom(ctx), population_size=P, step=step)
    gens = {}
    orig = Population.__init__

    def spy(self, it, tracker, generation=-1):
        orig(self, it, tracker, generation)
        gens[generation] = list(self.individuals)

    Population.__init__ = spy
    try:
        gp.search()
    finally:
        Population.__init__ = orig
    ctx.reached()
    best = {g: max(_agg(fit.value_of(i.genotype), minimize) for i in inds) for g, inds in gens.items()}
    for g in sorted(best):
        if g + 1 in best:
            ctx.require(best[g + 1] >= best[g], "elitism:best-fitness-got-worse-across-a-generation", lambda: {"generation": g, "minimize": minimize, "before": [fit.value_of(i.genotype) for i in gens[g]], "after": [fit.value_of(i.genotype) for i in gens[g + 1]]})


HARNESSES = {"run_monotone": h_run_monotone, "elitism": h_elitism, "helpers": h_helpers, "generation": h_generation}


def obligations(tier: str):
    T = tier == "thorough"
    obs = []

    def add(h, name, timeout=100, **cfg):
        obs.append(Ob(h, cfg, name=name, timeout=timeout * (8 if T else 1)))

    M = 5 if T else 4
    add("elitism", "elitism_topk_list", M=M)
    add("elitism", "elitism_topk_iterator", M=M, form="iterator")
    add("elitism", "elitism_topk_duplicates", M=M, duplicates=True, table=2)
    add("elitism", "elitism_topk_two_objectives", M=3, objectives=2, timeout=200)
    add("elitism", "elitism_topk_infinite_fitness", M=3 if not T else 4, table="inf")
    add("helpers", "sort_best_is_better", M=M)
    add("helpers", "sort_best_is_better_infinite_fitness", M=3 if not T else 4, table="inf")
    add("run_monotone", "gp_run_monotone_best", P=2, budget=4 if not T else 5, timeout=250)
    add("generation", "one_generation_monotone_best", M=2 if not T else 3, table=2, timeout=250)
    return obs
