"""C09 - operators and steps never modify their inputs."""
from __future__ import annotations

from geneticengine.algorithms.gp.operators.combinators import ExclusiveParallelStep, ParallelStep, SequenceStep
from geneticengine.algorithms.gp.operators.crossover import GenericCrossoverStep
from geneticengine.algorithms.gp.operators.elitism import ElitismStep
from geneticengine.algorithms.gp.operators.mutation import GenericMutationStep
from geneticengine.algorithms.gp.operators.novelty import NoveltyStep
from geneticengine.algorithms.gp.operators.selection import LexicaseSelection, TournamentSelection
from geneticengine.evaluation.sequential import SequentialEvaluator
from geneticengine.problems import MultiObjectiveProblem, SingleObjectiveProblem
from geneticengine.solutions.individual import Individual

from vf.engine import synth
from vf.engine.ob import Ob
from vf.engine.sym import Ctx, FreshRandom
from vf.oracles import recomb as OR

PROPERTY = "C09"
FUNCTIONS = [
    "treebased.mutate / tree_mutate / tree_crossover, tree.initializations.apply_constructor / wrap_result, tree.utils.relabel_nodes (memoisation on gengy_labeled)",
    "ge / structured_ge / dynamic_structured_ge / stackgggp mutate and crossover",
    "gp.operators: ElitismStep, NoveltyStep, TournamentSelection, LexicaseSelection, GenericMutationStep, GenericCrossoverStep, SequenceStep, ParallelStep, ExclusiveParallelStep",
]
ASSUMPTIONS = [
    "snapshot of a tree genotype: per node class, field values, gengy_nodes / distance / weighted / labelled flag, the type index by identity, synthesis context values, identity and contents of gengy_init_values; of gene containers: identity and contents; of an individual: genotype snapshot, phenotype identity, metadata dict, fitness_store entries",
    "compared before / after the operation and again after the offspring have been mapped and varied once more (aliasing that only bites later)",
    "evaluation inside a step may ADD a fitness entry for an individual that had none (caching), never change an existing one",
    "bounds: trees of depth <= 2, gene length <= 4, populations of 2-3 individuals, two consecutive operations",
]


def _ind_snapshot(kind, ind, problem):
    fs = ind.fitness_store.get(problem) if problem is not None else None
    return (OR.genotype_snapshot(kind, ind.genotype), id(ind.phenotype) if ind.phenotype is not None else None, tuple(sorted(ind.metadata.items())), (fs.maximizing_aggregate, tuple(fs.fitness_components)) if fs is not None else None)


def h_operator(ctx: Ctx, cfg):
    fx, g = synth.make_grammar(ctx, cfg)
    r = FreshRandom(ctx)
    rep = synth.make_rep(cfg, g, r)
    kind = cfg["rep"]
    try:
        p1, p2 = rep.create_genotype(r), rep.create_genotype(r)
        if kind == "dsge":
            rep.genotype_to_phenotype(p1), rep.genotype_to_phenotype(p2)
    except synth.LIBRARY_ERRORS:
        return
    s1, s2 = OR.genotype_snapshot(kind, p1), OR.genotype_snapshot(kind, p2)
    try:
        if cfg["op"] == "mutate":
            offspring = [rep.mutate(r, p1)]
        else:
            offspring = list(rep.crossover(r, p1, p2))
    except synth.LIBRARY_ERRORS:
        offspring = []
    ctx.reached()
    ctx.require(OR.snap_eq(s1, OR.genotype_snapshot(kind, p1)), "inputs:parent-modified-by-operator", {"op": cfg["op"], "which": "first"})
    ctx.require(OR.snap_eq(s2, OR.genotype_snapshot(kind, p2)), "inputs:parent-modified-by-operator", {"op": cfg["op"], "which": "second"})
    for o in offspring:
        if kind != "tree":
            ctx.require(o.dna is not p1.dna and o.dna is not p2.dna, "inputs:offspring-shares-gene-container-with-parent")
            if isinstance(o.dna, dict):
                for k, v in o.dna.items():
                    for par in (p1, p2):
                        ctx.require(not (k in par.dna and par.dna[k] is v), "inputs:offspring-shares-gene-list-with-parent", {"key": str(k)})
    # later use of the offspring must not reach back into the parents
    for o in offspring[:1]:
        try:
            rep.mutate(r, o)
        except synth.LIBRARY_ERRORS:
            pass
    if kind != "dsge":  # dSGE mapping may extend the mapped genotype itself (the permitted side effect)
        ctx.require(OR.snap_eq(s1, OR.genotype_snapshot(kind, p1)), "inputs:parent-modified-by-later-use-of-offspring", {"which": "first"})
        ctx.require(OR.snap_eq(s2, OR.genotype_snapshot(kind, p2)), "inputs:parent-modified-by-later-use-of-offspring", {"which": "second"})


def _mk_step(name, ctx):
    if name == "elitism":
        return ElitismStep()
    if name == "novelty":
        return NoveltyStep()
    if name == "tournament":
        return TournamentSelection(2, with_replacement=ctx.bool("replacement"))
    if name == "lexicase":
        return LexicaseSelection()
    if name == "mutation":
        return GenericMutationStep(ctx.pick([0.0, 1.0], "pm"))
    if name == "crossover":
        return GenericCrossoverStep(ctx.pick([0.0, 1.0], "pc"))
    if name == "sequence":
        return SequenceStep(TournamentSelection(2), GenericCrossoverStep(1), GenericMutationStep(1))
    if name == "parallel":
        return ParallelStep([ElitismStep(), NoveltyStep(), GenericMutationStep(1)], weights=[1, 1, 1])
    if name == "exclusive":
        return ExclusiveParallelStep([GenericMutationStep(1), GenericCrossoverStep(1)])
    raise KeyError(name)


def h_step(ctx: Ctx, cfg):
    fx, g = synth.make_grammar(ctx, cfg)
    r = FreshRandom(ctx)
    rep = synth.make_rep(cfg, g, r)
    kind = cfg["rep"]
    lex = cfg["step"] == "lexicase"
    table = [0.0, 1.0]
    calls = []

    symfit = cfg["step"] in ("elitism",)

    def fitness(ph):
        calls.append(1)
        v = table[ctx.cint(0, 1, "fitness")] if symfit else 1.0
        return [v, v] if lex else v

    problem = MultiObjectiveProblem([False, False], fitness) if lex else SingleObjectiveProblem(fitness, minimize=False)
    try:
        pop = [Individual(rep.create_genotype(r), rep) for _ in range(cfg["M"])]
    except synth.LIBRARY_ERRORS:
        return
    ev = SequentialEvaluator()
    if ctx.bool("pre_evaluated"):
        ev.evaluate(problem, pop[:1])
    pop[0].metadata["generation"] = 0
    before = [_ind_snapshot(kind, i, problem) for i in pop]
    order = list(pop)
    step = _mk_step(cfg["step"], ctx)
    out = list(step.apply(problem, ev, rep, r, list(pop), cfg["M"], 1))
    ctx.reached()
    ctx.require(all(a is b for a, b in zip(order, pop)) and len(pop) == cfg["M"], "inputs:population-list-reordered-or-resized")

    def unchanged(where):
        for j, i in enumerate(pop):
            after = _ind_snapshot(kind, i, problem)
            b = before[j]
            ctx.require(OR.snap_eq(b[0], after[0]), "inputs:individual-genotype-modified-by-step", {"step": cfg["step"], "where": where, "individual": j})
            ctx.require(b[1] is None or b[1] == after[1], "inputs:individual-phenotype-replaced-by-step", {"step": cfg["step"], "where": where})
            ctx.require(b[2] == after[2], "inputs:individual-metadata-modified-by-step", {"step": cfg["step"], "where": where})
            ctx.require(b[3] is None or b[3] == after[3], "inputs:cached-fitness-modified-by-step", {"step": cfg["step"], "where": where})

    unchanged("after step")
    # second generation on the outputs: must still not reach back
    if cfg.get("second", True):
        out2 = list(GenericMutationStep(1).apply(problem, ev, rep, r, list(out), len(out), 2)) if out else []
        unchanged("after the outputs were mutated once more")


HARNESSES = {"operator": h_operator, "step": h_step}


def obligations(tier: str):
    T = tier == "thorough"
    obs = []

    def add(h, name, timeout=100, **cfg):
        cfg.setdefault("fuel", 200)
        obs.append(Ob(h, cfg, name=name, timeout=timeout * (8 if T else 1), path_timeout=60))

    for op in ("mutate", "crossover"):
        add("operator", f"tree_{op}_f0", fixture="f0", rep="tree", decider="grow", max_depth=2, op=op, timeout=200)
        if T or op == "crossover":
            add("operator", f"tree_{op}_f11_concrete_start", fixture="f11", rep="tree", decider="grow", max_depth=3, op=op, timeout=300)
        add("operator", f"tree_{op}_f2l", fixture="f2", grammar_fn="grammar_lst", rep="tree", decider="grow", max_depth=2, op=op, timeout=250) if T or op == "mutate" else None
        for rep in ("ge", "stack"):
            add("operator", f"{rep}_{op}", fixture="f0", rep=rep, decider="grow", max_depth=2, gene_length=4 if T else 3, op=op, failures_limit=1, gene_fuel=8)
        add("operator", f"sge_{op}", fixture="fmin", rep="sge", decider="grow", max_depth=2, gene_length=2, op=op, timeout=200)
        add("operator", f"dsge_{op}", fixture="f0", rep="dsge", max_depth=3, op=op, timeout=200)
        add("operator", f"dsge_{op}_f8", fixture="f8", rep="dsge", max_depth=2, op=op, timeout=200)
    for st in ("elitism", "novelty", "tournament", "lexicase", "mutation", "crossover", "parallel", "exclusive"):  # (sequence over GE: 10 800 paths, not exhausted in 4000 s; step_sequence_tree stays)
        add("step", f"step_{st}_ge", fixture="fmin", rep="ge", decider="grow", max_depth=2, gene_length=2, step=st, M=2, timeout=200, second=T or st in ("elitism", "novelty", "crossover"))
    for st in ("mutation", "crossover", "elitism") + (("sequence", "parallel") if T else ()):
        add("step", f"step_{st}_tree", fixture="fmin", rep="tree", decider="grow", max_depth=1, step=st, M=2, timeout=200, second=T or st == "elitism")
    return [o for o in obs if o is not None]
