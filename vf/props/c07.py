"""C07 - genotype-to-phenotype mapping is a pure function of the genotype."""
from __future__ import annotations

import inspect

from geneticengine.representations.grammatical_evolution import dynamic_structured_ge as DSGE

from vf.engine import synth
from vf.engine.ob import Ob
from vf.engine.sym import Ctx, FreshRandom
from vf.oracles import typing as OT

PROPERTY = "C07"
FUNCTIONS = [
    "ge.GrammaticalEvolutionRepresentation.genotype_to_phenotype + ListWrapper",
    "structured_ge.StructuredGrammaticalEvolutionRepresentation.genotype_to_phenotype + StructuredListWrapper",
    "dynamic_structured_ge.DynamicStructuredGrammaticalEvolutionRepresentation.genotype_to_phenotype + DynamicSGEDecider + Genotype.get",
    "stackgggp.create_tree_using_stacks; tree.initializations.create_node (metahandlers draw from GlobalSynthesisContext.random)",
    "solutions.individual.Individual.get_phenotype",
]
ASSUMPTIONS = [
    "genes fully symbolic (created by the real create_genotype over a symbolic source); the shared stream is a second symbolic source",
    "dSGE: draws from the shared stream are permitted only from inside Genotype.get (on-demand extension), detected by stack inspection",
    "grammars f1 (refined leaf), f2 (lists), f3 (tuple/union), f5 RD (dependent refinement); depth <= 3; gene length <= 6",
    "stack representation: gene-read fuel bounds the mapper's loop; set-iteration order is whatever this process has (cross-process order is C08's subject)",
]


class SharedRandom(FreshRandom):
    """the search's shared stream: counts draws made outside dSGE's Genotype.get"""

    def __init__(self, ctx):
        super().__init__(ctx, "shared")
        self.foreign = 0
        self.in_get = 0

    def _inside_get(self):
        f = inspect.currentframe()
        code = DSGE.Genotype.get.__code__
        while f is not None:
            if f.f_code is code:
                return True
            f = f.f_back
        return False

    def _classify(self):
        if self.ctx.concrete(self._inside_get):
            self.in_get += 1
        else:
            self.foreign += 1

    def randint(self, min, max):
        self._classify()
        return super().randint(min, max)

    def random_float(self, min, max):
        self._classify()
        return super().random_float(min, max)

    def normalvariate(self, mean, sigma):
        self._classify()
        return super().normalvariate(mean, sigma)


def h_pure(ctx: Ctx, cfg):
    fx, g = synth.make_grammar(ctx, cfg)
    creator = FreshRandom(ctx, "creator", concrete=bool(cfg.get("concrete_genes")))  # only used to create the genotype
    shared = SharedRandom(ctx)  # the search's stream, handed to the representation / decider
    rep = synth.make_rep(cfg, g, shared)
    geno = rep.create_genotype(creator if cfg["rep"] != "dsge" else shared)
    geno = synth.fuel_genes(ctx, cfg, geno)
    for op in cfg.get("ops", []):  # genotypes reachable by variation
        if op == "mutate":
            geno = synth.fuel_genes(ctx, cfg, rep.mutate(creator, geno))
        else:
            other = rep.create_genotype(creator if cfg["rep"] != "dsge" else shared)
            geno = synth.fuel_genes(ctx, cfg, rep.crossover(creator, geno, other)[0])
    shared.foreign = 0
    try:
        p1 = rep.genotype_to_phenotype(geno)
    except synth.LIBRARY_ERRORS:
        p1 = None
    ctx.reached()
    ctx.require(shared.foreign == 0, "purity:mapping-draws-from-shared-stream", lambda: {"draws": shared.foreign, "first": shared.tags_last()})
    # other uses of the shared source in between
    for _ in range(cfg.get("interleave", 1)):
        shared.randint(0, 7)
    shared.foreign = 0
    before_get = shared.in_get
    try:
        p2 = rep.genotype_to_phenotype(geno)
    except synth.LIBRARY_ERRORS:
        p2 = None
    ctx.require(shared.foreign == 0, "purity:second-mapping-draws-from-shared-stream")
    if cfg["rep"] == "dsge":
        ctx.require(shared.in_get == before_get, "purity:dsge-second-mapping-extends-genotype-again")
    ctx.require((p1 is None) == (p2 is None), "purity:mapping-fails-only-sometimes")
    if p1 is not None:
        ctx.require(OT.struct_eq(p1, p2), "purity:same-genotype-maps-to-different-programs", lambda: {"first": OT.show(p1), "second": OT.show(p2)})


def h_fresh_vs_used(ctx: Ctx, cfg):
    """the program a genotype maps to is determined by the genotype and the grammar alone: a
    representation object that has already mapped another genotype (possibly failing on it) maps
    the next one to the same program as a brand-new representation object does"""
    fx, g = synth.make_grammar(ctx, cfg)
    creator = FreshRandom(ctx, "creator")
    used = synth.make_rep(cfg, g, SharedRandom(ctx))
    fresh = synth.make_rep(cfg, g, SharedRandom(ctx))
    a = synth.fuel_genes(ctx, cfg, used.create_genotype(creator))
    b = used.create_genotype(creator)
    first_failed = False
    try:
        used.genotype_to_phenotype(a)
    except synth.LIBRARY_ERRORS:
        first_failed = True
    ctx.note("first_mapping_failed", first_failed)
    import copy

    b1 = synth.fuel_genes(ctx, cfg, copy.copy(b))
    b2 = synth.fuel_genes(ctx, cfg, copy.copy(b))
    try:
        p_used = used.genotype_to_phenotype(b1)
    except synth.LIBRARY_ERRORS:
        p_used = None
    try:
        p_fresh = fresh.genotype_to_phenotype(b2)
    except synth.LIBRARY_ERRORS:
        p_fresh = None
    ctx.reached()
    ctx.require((p_used is None) == (p_fresh is None), "purity:mapping-depends-on-the-representation-object's-history", lambda: {"used_failed": p_used is None, "fresh_failed": p_fresh is None, "first_mapping_failed": first_failed})
    if p_used is not None:
        ctx.require(OT.struct_eq(p_used, p_fresh), "purity:mapping-depends-on-the-representation-object's-history", lambda: {"used": OT.show(p_used), "fresh": OT.show(p_fresh), "first_mapping_failed": first_failed})


def _tags_last(self):
    return self.ctx.tags[-1] if self.ctx.tags else None


SharedRandom.tags_last = _tags_last


def h_individual(ctx: Ctx, cfg):
    """Individual.get_phenotype caches: the phenotype handed out later is the one mapped first"""
    from geneticengine.solutions.individual import Individual

    fx, g = synth.make_grammar(ctx, cfg)
    shared = SharedRandom(ctx)
    rep = synth.make_rep(cfg, g, shared)
    geno = rep.create_genotype(FreshRandom(ctx, "creator") if cfg["rep"] != "dsge" else shared)
    ind = Individual(geno, rep)
    try:
        a = ind.get_phenotype()
    except synth.LIBRARY_ERRORS:
        return
    shared.randint(0, 7)
    b = ind.get_phenotype()
    ctx.reached()
    ctx.require(a is b, "purity:individual-phenotype-not-cached")


HARNESSES = {"pure": h_pure, "individual": h_individual, "fresh_vs_used": h_fresh_vs_used}


def obligations(tier: str):
    T = tier == "thorough"
    obs = []

    def add(name, h="pure", timeout=100, **cfg):
        cfg.setdefault("fuel", 200)
        cfg.setdefault("ops", [])
        obs.append(Ob(h, cfg, name=name, timeout=timeout * (8 if T else 1), path_timeout=60))

    for rep in ("ge", "sge", "dsge"):
        gl = 6 if rep == "ge" else 2
        md = 3 if rep != "dsge" else 4
        for dec in (("grow", "full", "pi", "pt") if rep != "dsge" else ("grow",)):
            if not T and dec in ("full", "pi"):
                continue
            add(f"{rep}_{dec}_f1", fixture="f1", rep=rep, decider=dec, max_depth=3 if rep != "dsge" or T else 2, gene_length=gl, fuel=200 if dec != "pt" else 30)
        add(f"{rep}_f2", fixture="f2", rep=rep, decider="grow", max_depth=2 if rep != "dsge" or not T else 3, gene_length=gl)
        add(f"{rep}_f3", fixture="f3", rep=rep, decider="grow", max_depth=md, gene_length=gl)
        add(f"{rep}_f3c_bool", fixture="f3c", grammar_fn="grammar_bool", rep=rep, decider="grow", max_depth=2 if rep != "dsge" else 3, gene_length=gl)
        if T or rep == "dsge":  # bare list, no refinement anywhere (dSGE: list lengths are read under the key `int`)
            add(f"{rep}_f3c_list", fixture="f3c", rep=rep, decider="grow", max_depth=3, gene_length=gl, fuel=60)
        # (f3b - bare int / float / str literals - multiplies the wide-range literal synthesis by two
        # mappings: 1500+ paths not exhausted in 2000 s, and dSGE ends "not confirmed" on it; the literal
        # kinds are covered one at a time by f3c (bool, bare list) and f3f (float))
        # (unrefined float under GE / SGE with realised genes: 3000 paths without a failing one, not
        # exhausted in 2000 s; C08's rs_*_float_same_process obligations cover the float path)
        add(f"{rep}_f5RD", fixture="f5", grammar_fn="g_RD", rep=rep, decider="grow", max_depth=2, gene_length=gl)
        add(f"{rep}_f0_mutated", fixture="f0", rep=rep, decider="grow", max_depth=2 if rep != "dsge" else 3, gene_length=3 if rep == "ge" else 2, ops=["mutate"])
        if T or rep == "dsge":
            add(f"{rep}_f0_crossed", fixture="f0", rep=rep, decider="grow", max_depth=2 if rep != "dsge" else 3, gene_length=3 if rep == "ge" else 2, ops=["crossover"])
        add(f"{rep}_individual_f1", h="individual", fixture="f1", rep=rep, decider="grow", max_depth=2 if rep != "dsge" else 3, gene_length=gl)
    add("stack_fresh_vs_used_f0", h="fresh_vs_used", fixture="f0", rep="stack", gene_length=3, failures_limit=1, gene_fuel=6, timeout=250)
    add("ge_fresh_vs_used_f1", h="fresh_vs_used", fixture="f1", rep="ge", decider="pi", max_depth=3, gene_length=4)
    add("dsge_fresh_vs_used_f3c", h="fresh_vs_used", fixture="f3c", rep="dsge", max_depth=3, fuel=60)
    add("sge_fresh_vs_used_f0", h="fresh_vs_used", fixture="f0", rep="sge", decider="grow", max_depth=2, gene_length=1)
    add("stack_f1", fixture="f1", rep="stack", gene_length=3 if not T else 4, failures_limit=1, gene_fuel=8 if not T else 12, timeout=150)
    add("stack_f1p_postponed_annotations", fixture="f1p", rep="stack", gene_length=3 if not T else 4, failures_limit=1, gene_fuel=8 if not T else 12, timeout=150)
    add("ge_f1p_postponed_annotations", fixture="f1p", rep="ge", decider="grow", max_depth=2, gene_length=4)
    add("stack_f0", fixture="f0", rep="stack", gene_length=3 if not T else 4, failures_limit=1, gene_fuel=8 if not T else 12, timeout=150)
    return obs
