"""C08 - same seed, same search: reproducible within and across processes."""
from __future__ import annotations

import itertools

from geneticengine.algorithms.gp.gp import GeneticProgramming
from geneticengine.algorithms.gp.operators.combinators import ParallelStep, SequenceStep
from geneticengine.algorithms.gp.operators.elitism import ElitismStep
from geneticengine.algorithms.gp.operators.crossover import GenericCrossoverStep
from geneticengine.algorithms.gp.operators.mutation import GenericMutationStep
from geneticengine.algorithms.gp.operators.novelty import NoveltyStep
from geneticengine.algorithms.hill_climbing import HC
from geneticengine.algorithms.one_plus_one import OnePlusOne
from geneticengine.algorithms.random_search import RandomSearch
from geneticengine.evaluation.budget import EvaluationBudget
from geneticengine.problems import SingleObjectiveProblem
from geneticengine.random.sources import RandomSource

from vf.engine import synth
from vf.engine.ob import Ob
from vf.engine.sym import Ctx, FLOAT_FRACTIONS, same_value
from vf.fixtures import fh
from vf.oracles import typing as OT

PROPERTY = "C08"
FUNCTIONS = [
    "algorithms.random_search / hill_climbing / one_plus_one / gp.gp search(), gp.operators steps",
    "all five representations' create_genotype / genotype_to_phenotype / mutate (structured_ge.create_genotype and stackgggp.create_tree_using_stacks iterate grammar symbol sets)",
    "grammar.grammar.Grammar.all_nodes / get_all_mentioned_symbols (Python sets of classes), random.sources.NativeRandomSource (seed -> stream: C18)",
]
ASSUMPTIONS = [
    "'same seed' = the same symbolic stream: the k-th draw of both runs is the same solver term when both runs request the same range at position k (uninterpreted function of seed and position; C18 covers NativeRandomSource itself)",
    "'another process' = another iteration order of the repository's own sets of classes, obtained by giving the fixture classes harness-chosen hashes (metaclass) before the grammar is extracted afresh; the permutation is a symbolic input; real allocator / ASLR behaviour and import order of user modules are outside",
    "'one after the other in the same process' = the same representation / grammar objects reused for a second search",
    "budgets <= 3 evaluations (thorough 4), population 2, fixture fh (4 classes -> 24 orders; identity vs 3 other orders in the quick tier, 6 in the thorough tier) and fh2 (6 classes + 3 refinement objects; 3 / 6 orders); wall-clock budgets excepted",
]


class Tape:
    def __init__(self):
        self.items = []


class TapeRandom(RandomSource):
    """both runs read the same tape: position k holds (kind, lo, hi, value)"""

    def __init__(self, ctx, tape):
        self.ctx = ctx
        self.tape = tape
        self.pos = 0
        self.diverged = False
        self.concrete_values = False

    def _next(self, kind, lo, hi, make):
        k = self.pos
        self.pos += 1
        if k < len(self.tape.items):
            kd, l0, h0, v = self.tape.items[k]
            if kd == kind and (l0 is lo or l0 == lo) and (h0 is hi or h0 == hi):
                return v
            self.diverged = True  # same position, different request: the runs have already parted
            return make()
        v = make()
        self.tape.items.append((kind, lo, hi, v))
        return v

    def randint(self, min, max):
        if self.concrete_values:
            # code that crosses into C (math.log on floats derived from genes): draws are realised,
            # from a small set of representative values of the requested range
            cands = [v for v in dict.fromkeys([min + 1, min + 6]) if min <= v <= max] or [min]
            return self._next("int", min, max, lambda: self.ctx.pick(cands, "tape.randint"))
        return self._next("int", min, max, lambda: self.ctx.int(min, max, "tape.randint"))

    def random_float(self, min, max):
        f = self._next("float", 0, 0, lambda: self.ctx.pick(FLOAT_FRACTIONS, "tape.random_float"))
        return min + (max - min) * f

    def normalvariate(self, mean, sigma):
        f = self._next("norm", 0, 0, lambda: self.ctx.pick((-1.0, 0.0, 2.5), "tape.normalvariate"))
        return mean + sigma * f


PERMS = list(itertools.permutations(range(4)))
QUICK_PERMS = [PERMS[23], PERMS[9], PERMS[14]]
# thorough tier: six of the 24 orders (all 24 multiply every obligation by 24: several did not finish in 75 min)
THOROUGH_PERMS = [PERMS[23], PERMS[9], PERMS[14], PERMS[4], PERMS[18], PERMS[7]]


def _search(ctx, cfg, tape, perm, reuse=None):
    fx = synth.fixture(cfg.get("fixture", "fh"))
    if reuse is None:
        fx.set_hashes(perm)
        g = ctx.concrete(fx.grammar)
        r = TapeRandom(ctx, tape)
        r.concrete_values = bool(cfg.get("concrete_draws"))
        rep = synth.make_rep(cfg, g, r)
        if cfg["rep"] == "stack":  # bound the mapper's loop (it has no iteration bound of its own)
            real_map = rep.genotype_to_phenotype
            rep.genotype_to_phenotype = lambda geno: real_map(synth.fuel_genes(ctx, dict(cfg, gene_fuel=cfg.get("gene_fuel", 8)), geno))
    else:
        g, rep = reuse
        r = TapeRandom(ctx, tape)
        r.concrete_values = bool(cfg.get("concrete_draws"))
        if hasattr(rep, "decider"):
            rep.decider.random = r
    seen = []

    def fitness(p):
        seen.append(p)
        return float(OT.depth(p))

    problem = SingleObjectiveProblem(fitness, minimize=False)
    budget = EvaluationBudget(cfg["budget"])
    alg = cfg["alg"]
    if alg == "rs":
        s = RandomSearch(problem, budget, rep, r)
    elif alg == "hc":
        s = HC(problem, budget, rep, r, number_of_mutations=2)
    elif alg == "1p1":
        s = OnePlusOne(problem, budget, rep, r)
    else:
        if cfg.get("step") == "mixed":
            step = ParallelStep([ElitismStep(), NoveltyStep(), GenericMutationStep(1)], weights=[1, 0, 1])
        elif cfg.get("step") == "crossover":
            step = GenericCrossoverStep(1)
        elif cfg.get("step") == "crossover_mutation":
            step = SequenceStep(GenericCrossoverStep(1), GenericMutationStep(1))
        else:
            step = GenericMutationStep(1)
        s = GeneticProgramming(problem, budget, rep, r, population_size=2, step=step)
    try:
        best = s.search()
        err = None
    except synth.LIBRARY_ERRORS as e:
        best, err = None, type(e).__name__
    return seen, best, err, (g, rep), problem


def _same_program(a, b):
    return OT.struct_eq(a, b)


def h_reproducible(ctx: Ctx, cfg):
    tape = Tape()
    mode = cfg["mode"]
    choices = THOROUGH_PERMS if cfg.get("all_perms") else ([PERMS[23]] if cfg.get("one_perm") else QUICK_PERMS)
    perm2 = ctx.pick(choices, "hash_order") if mode == "other_process" else PERMS[0]
    seen1, best1, err1, objs, p1 = _search(ctx, cfg, tape, PERMS[0])
    seen2, best2, err2, _, p2 = _search(ctx, cfg, tape, perm2, reuse=objs if mode == "same_process" else None)
    ctx.reached()
    ctx.note("hash_order", list(perm2))
    ctx.require(err1 == err2, "repro:one-run-fails-the-other-does-not", {"first": err1, "second": err2})
    ctx.require(len(seen1) == len(seen2), "repro:different-number-of-programs-evaluated", lambda: {"first": len(seen1), "second": len(seen2)})
    for j, (a, b) in enumerate(zip(seen1, seen2)):
        ctx.require(_same_program(a, b), "repro:evaluated-program-sequences-differ", lambda: {"position": j, "first": OT.show(a), "second": OT.show(b), "hash_order": list(perm2)})
    if best1 is not None:
        ctx.require(_same_program(best1.get_phenotype(), best2.get_phenotype()), "repro:returned-best-differs", lambda: {"first": OT.show(best1.get_phenotype()), "second": OT.show(best2.get_phenotype())})
        ctx.require(best1.get_fitness(p1).fitness_components == best2.get_fitness(p2).fitness_components, "repro:returned-fitness-differs")


def _operators(ctx, cfg, tape, perm):
    """the variation operators on their own: create two genotypes, cross them over, mutate a child"""
    fx = synth.fixture(cfg.get("fixture", "fh"))
    fx.set_hashes(perm)
    g = ctx.concrete(fx.grammar)
    r = TapeRandom(ctx, tape)
    rep = synth.make_rep(cfg, g, r)
    if cfg["rep"] == "stack":
        real_map = rep.genotype_to_phenotype
        rep.genotype_to_phenotype = lambda geno: real_map(synth.fuel_genes(ctx, dict(cfg, gene_fuel=cfg.get("gene_fuel", 8)), geno))
    out = []
    try:
        a = rep.create_genotype(r)
        if cfg.get("map_only"):  # one genotype, mapped: the mapper's own order dependence
            return [rep.genotype_to_phenotype(a)], None
        b = rep.create_genotype(r)
        out += [rep.genotype_to_phenotype(a), rep.genotype_to_phenotype(b)]
        c1, c2 = rep.crossover(r, a, b)
        out += [rep.genotype_to_phenotype(c1), rep.genotype_to_phenotype(c2)]
        if cfg.get("mutate", False):
            out.append(rep.genotype_to_phenotype(rep.mutate(r, c1)))
        return out, None
    except synth.LIBRARY_ERRORS as e:
        return out, type(e).__name__


def h_operators_reproducible(ctx: Ctx, cfg):
    tape = Tape()
    fx = synth.fixture(cfg.get("fixture", "fh"))
    if hasattr(fx, "IDENTITY"):
        ident, choices = fx.IDENTITY, (fx.ALL_PERMS[:6] if cfg.get("all_perms") else fx.QUICK_PERMS[: cfg.get("n_perms", 99)])
    else:
        ident, choices = PERMS[0], (THOROUGH_PERMS if cfg.get("all_perms") else ([PERMS[23]] if cfg.get("one_perm") else QUICK_PERMS))
    perm2 = ctx.pick(choices, "hash_order")
    out1, err1 = _operators(ctx, cfg, tape, ident)
    out2, err2 = _operators(ctx, cfg, tape, perm2)
    ctx.reached()
    ctx.note("hash_order", list(perm2))
    ctx.require(err1 == err2 and len(out1) == len(out2), "repro:one-run-fails-the-other-does-not", lambda: {"first": err1, "second": err2, "n1": len(out1), "n2": len(out2)})
    names = ["first created", "second created", "first child", "second child", "mutated child"]
    for j, (a, b) in enumerate(zip(out1, out2)):
        ctx.require(_same_program(a, b), "repro:operator-results-differ", lambda: {"which": names[j], "first": OT.show(a), "second": OT.show(b), "hash_order": list(perm2)})


HARNESSES = {"reproducible": h_reproducible, "operators_reproducible": h_operators_reproducible}


def obligations(tier: str):
    T = tier == "thorough"
    obs = []

    def add(name, timeout=150, **cfg):
        cfg.setdefault("fuel", 300)
        cfg.setdefault("all_perms", T)
        obs.append(Ob("reproducible", cfg, name=name, timeout=timeout * (8 if T else 1), path_timeout=60, smoke=4))

    reps = {"tree": dict(rep="tree", decider="grow", max_depth=2), "ge": dict(rep="ge", decider="grow", max_depth=2, gene_length=3), "sge": dict(rep="sge", decider="grow", max_depth=2, gene_length=1),
            "dsge": dict(rep="dsge", max_depth=3), "stack": dict(rep="stack", gene_length=3, failures_limit=1)}
    for rn, rc in reps.items():
        for mode in ("other_process", "same_process"):
            add(f"rs_{rn}_{mode}", alg="rs", budget=2 if not T else 3, mode=mode, **rc)
    for alg in ("hc", "1p1", "gp"):
        b = {"hc": 3, "1p1": 2, "gp": 3}[alg] + (1 if T else 0)
        for rn in ("tree",) + (("ge", "dsge") if T else ()):
            rc = dict(reps[rn])
            if alg == "gp":
                if rn == "dsge":
                    continue  # did not exhaust in 3000 s even at depth 2
                rc["max_depth"] = 1  # one program shape: the generation loop itself is what is compared
            bb = b - 1 if (T and alg == "hc" and rn != "tree") else b  # hc over GE / dSGE with budget 4: 1500 paths, not exhausted in 3000 s
            add(f"{alg}_{rn}_other_process", alg=alg, budget=bb, mode="other_process", **rc)
        if T or alg == "1p1":
            add(f"{alg}_tree_same_process", alg=alg, budget=b, mode="same_process", **reps["tree"])
    # unrefined float field: the value is synthesised with normalvariate on the gene-backed source
    # (state kept between calls / searches would show up in the second search of the same process)
    for rn in ("ge",):  # (SGE: 3400 paths without a failing one, not exhausted in 3000 s)
        rc = dict(reps[rn], fixture="f3f", concrete_draws=True, gene_length=2 if rn == "ge" else 1, max_depth=1)
        add(f"rs_{rn}_float_same_process", alg="rs", budget=3, mode="same_process", **rc)
    # crossover between two individuals (the children are what the second generation evaluates)
    for rn in reps:
        rc = dict(reps[rn])
        if rn == "sge" and not T:
            continue  # one mask bit per key of the genotype (7): 128 masks per pair of shapes; thorough tier only
        if rn in ("dsge", "stack"):  # containers keyed by non-terminal: two abstract symbols
            rc["fixture"] = "fh2"
        elif not T:
            rc["one_perm"] = True  # the reversed order only
        if rn == "stack":
            rc.update(map_only=True, gene_length=3, gene_fuel=8 if T else 7, n_perms=2)
        if rn == "sge":
            rc["one_perm"] = True
        obs.append(Ob("operators_reproducible", dict(rc, fuel=300, all_perms=T and rn != "sge"), name=f"operators_{rn}_other_process", timeout=300 * (8 if T else 1), path_timeout=60, smoke=4))
        # (whole GP runs with a crossover step did not exhaust even with 3 orders and budget 4 - the
        # operator-level obligations above are what covers crossover)
    if T:
        add("gp_mixed_step_tree_other_process", alg="gp", step="mixed", budget=3, mode="other_process", **dict(reps["tree"], max_depth=1))
    return obs
