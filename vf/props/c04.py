"""C04 - depth-bounded creation reaches exactly the grammar's bounded language."""
from __future__ import annotations

from geneticengine.representations.tree import operators as OPS
from geneticengine.representations.tree.treebased import TreeBasedRepresentation

from vf.engine import synth
from vf.engine.ob import Ob
from vf.engine.sym import Ctx, FreshRandom
from vf.oracles import language as OL
from vf.oracles import typing as OT

PROPERTY = "C04"
FUNCTIONS = [
    "tree.initializations.MaxDepthDecider / FullDecider / PositionIndependentGrowDecider.choose_production_alternatives, create_node",
    "tree.operators.FullInitializer, grammar.grammar distance analysis (preprocess / get_distance_to_terminal), random.sources.RandomSource.choice",
]
ASSUMPTIONS = [
    "finite-choice grammars only: f0, f1s (two-valued leaf), f3 (tuple / union), f4 (two abstract layers, field-less production), f2 Leaf+Lst (sized list), f5 RD (dependent pair)",
    "ALL-MODELS ENUMERATION, not a single for-all query: leaf values are realised at the end of each path, so the exhausted path tree enumerates every program reachable under every sequence of random decisions; the reached set is compared with an independent enumerator of L_d (reached == L_d for grow; == the full programs of L_d for FullInitializer; subset for PI-grow)",
    "a missing program has no witness trace: the verdict is re-established by a concrete depth-first enumeration of all draw sequences against the real code",
    "d <= 3 and |L_d| <= a few hundred; grammars whose lists may be empty are excluded (their reported minimum depth is conservative: KF-C05-1)",
]


def _canon(p):
    return _tuplify(OT.structure(p))


def _tuplify(x):
    if isinstance(x, (list, tuple)):
        return tuple(_tuplify(e) for e in x)
    return x


def _lang(cfg):
    if cfg["fixture"] == "family":
        from vf.fixtures import family

        return [_tuplify(s) for s in OL.language(family.get(cfg["index"]), cfg["max_depth"])]
    fx = synth.fixture(cfg["fixture"])
    if cfg.get("classes"):
        class V:
            CLASSES = [getattr(fx, n) for n in cfg["classes"]]
            START = fx.START
        fx = V
    return [_tuplify(s) for s in OL.language(fx, cfg["max_depth"])]


def h_reach(ctx: Ctx, cfg):
    fx, g = synth.make_grammar(ctx, cfg)
    r = FreshRandom(ctx)
    d = cfg["max_depth"]
    kind = cfg["creator"]
    try:
        if kind == "full_initializer":
            rep = TreeBasedRepresentation(g, synth.make_decider("grow", r, g, d))
            p = list(OPS.FullInitializer(d).initialize(None, rep, r, 1))[0].get_phenotype()
        else:
            rep = TreeBasedRepresentation(g, synth.make_decider(kind, r, g, d))
            p = rep.create_genotype(r)
    except synth.LIBRARY_ERRORS as e:
        ctx.fail("language:creation-fails-at-a-feasible-depth", {"error": type(e).__name__})
    ctx.reached()
    c = ctx.concrete(_canon, p) if ctx.mode != "sym" else None
    if ctx.mode == "sym":
        from crosshair.core import deep_realize

        c = _tuplify(deep_realize(OT.structure(p)))
    lang = ctx.concrete(_lang, cfg)
    ctx.require(c in lang, "language:reachable-program-outside-the-bounded-language", lambda: {"program": c, "max_depth": d})
    ctx.collected.append(c)


def _post(cfg, collected):
    reached = set(collected)
    lang = set(_lang(cfg))
    d = cfg["max_depth"]
    kind = cfg["creator"]
    if kind == "grow":
        target = lang
    elif kind == "full_initializer":
        target = {s for s in lang if OL.is_full(s, d)}
    else:
        target = None
    extra = sorted(map(repr, reached - lang))
    if extra:
        return False, "language:reachable-program-outside-the-bounded-language", {"programs": extra[:5]}
    if target is not None and kind == "full_initializer" and not target:
        target = None  # no program of L_d has all branches ending at depth d: nothing to be exact about
    if target is not None:
        missing = sorted(map(repr, target - reached))
        if missing:
            return False, "language:valid-program-unreachable", {"missing": missing[:5], "n_missing": len(missing), "reached": len(reached), "language": len(target)}
        spurious = sorted(map(repr, reached - target))
        if spurious:
            return False, "language:program-reached-that-is-not-full", {"programs": spurious[:5]}
    return True, None, {"reached": len(reached), "language": len(lang), "target": len(target) if target is not None else None}


HARNESSES = {"reach": h_reach}
POST = {"reach": _post}


def obligations(tier: str):
    T = tier == "thorough"
    obs = []

    def add(name, timeout=150, **cfg):
        cfg.setdefault("fuel", 200)
        obs.append(Ob("reach", cfg, name=name, timeout=timeout * (8 if T else 1), path_timeout=60, smoke=6))

    for fxn, depths in (("f0", (1, 2, 3) + ((4, 5) if T else ())), ("f1s", (1, 2) + ((3,) if T else ())), ("f3", (1, 2, 3) + ((4,) if T else ())), ("f4", (2, 3) + ((4,) if T else ()))):
        for d in depths:
            add(f"grow_{fxn}_d{d}", fixture=fxn, creator="grow", max_depth=d)
    for d in (2, 3, 4) + ((5, 6) if T else ()):
        add(f"grow_f10_d{d}", fixture="f10", creator="grow", max_depth=d)
    for d in (2, 3) + ((4,) if T else ()):
        add(f"grow_f9_d{d}", fixture="f9", creator="grow", max_depth=d)
        add(f"pigrow_f9_d{d}", fixture="f9", creator="pi", max_depth=d)
    add("grow_f2lst_d2", fixture="f2", grammar_fn="grammar_lst", classes=["Leaf", "Lst"], creator="grow", max_depth=2)
    add("grow_f5RD_d1", fixture="f5", grammar_fn="g_RD", classes=["RD"], creator="grow", max_depth=1)
    if T:
        add("grow_f2lst_d3", fixture="f2", grammar_fn="grammar_lst", classes=["Leaf", "Lst"], creator="grow", max_depth=3)
        add("grow_f3n_d2", fixture="f3n", creator="grow", max_depth=2) if False else None
    for fxn, depths in (("f0", (1, 2, 3)), ("f1s", (1, 2) + ((3,) if T else ()))):
        for d in depths:
            add(f"full_{fxn}_d{d}", fixture=fxn, creator="full_initializer", max_depth=d)
            add(f"pigrow_{fxn}_d{d}", fixture=fxn, creator="pi", max_depth=d)
    for d in (2, 3) + ((4,) if True else ()):
        add(f"full_f12_d{d}", fixture="f12", creator="full_initializer", max_depth=d, timeout=300)
    for d in (1, 2, 3):
        add(f"full_f13_d{d}", fixture="f13", creator="full_initializer", max_depth=d, timeout=300)
        add(f"grow_f13_d{d}", fixture="f13", creator="grow", max_depth=d, timeout=300)
    for d in (2, 3):
        add(f"grow_f12_d{d}", fixture="f12", creator="grow", max_depth=d)
        add(f"pigrow_f12_d{d}", fixture="f12", creator="pi", max_depth=d)
    # generated hierarchies (vf/fixtures/family.py): every N-th member with a small bounded language
    from vf.fixtures import family

    for k in family.interesting(3, 30, every=30 if T else 120):
        for d in (2, 3):
            add(f"grow_family{k}_d{d}", fixture="family", index=k, creator="grow", max_depth=d, timeout=200)
        if T:
            add(f"pigrow_family{k}_d3", fixture="family", index=k, creator="pi", max_depth=3, timeout=200)
    # a production supplied without its intermediate abstract parent
    add("grow_f16neg_d3", fixture="f16", grammar_fn="grammar_neg", classes=["Lit", "Neg"], creator="grow", max_depth=3)
    add("grow_f16_d2", fixture="f16", creator="grow", max_depth=2)
    add("pigrow_f3_d3", fixture="f3", creator="pi", max_depth=3)
    add("pigrow_f4_d3", fixture="f4", creator="pi", max_depth=3)
    return [o for o in obs if o is not None]
