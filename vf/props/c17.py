"""C17 - selection operators are sound (tournament and lexicase)."""
from __future__ import annotations

import itertools

from geneticengine.algorithms.gp.operators.selection import LexicaseSelection, TournamentSelection
from geneticengine.evaluation.sequential import SequentialEvaluator
from geneticengine.problems import MultiObjectiveProblem, SingleObjectiveProblem
from geneticengine.solutions.individual import Individual

from vf.engine.ob import Ob
from vf.engine.popfix import TABLES, SymFitness, TokRep
from vf.engine.sym import Ctx, FreshRandom

PROPERTY = "C17"
FUNCTIONS = [
    "gp.operators.selection.TournamentSelection.iterate, LexicaseSelection.iterate (plain and epsilon)",
    "solutions.individual.Individual.key_function / ensure_fitness, random.sources.RandomSource.choice / shuffle",
]
ASSUMPTIONS = [
    "fitness values / vectors: symbolic selectors into tables of 2-3 distinct floats; per-case optimisation directions symbolic",
    "tournament: population 2-3, tournament size 1-3 (beyond the population size for population 2), target <= population, with and without replacement; every outcome of the draws explored",
    "lexicase: population 2-3, 1-2 cases, target 1-2 (<= population: lexicase selects without replacement); the oracle quantifies over ALL case orders (it does not read the order off the implementation)",
    "epsilon-lexicase goes through numpy (C boundary): values concrete on each path; the band is median absolute deviation as documented",
]


class LogRandom(FreshRandom):
    """observes which element each `choice` call returned (the repository's own choice code runs)"""

    def __init__(self, ctx):
        super().__init__(ctx)
        self.picked = []

    def choice(self, choices):
        v = super().choice(choices)
        self.picked.append(v)
        return v


def h_tournament(ctx: Ctx, cfg):
    minimize = ctx.bool("minimize")
    fit = SymFitness(ctx, TABLES[cfg.get("table", 3)])
    problem = SingleObjectiveProblem(fit, minimize=minimize)
    rep = TokRep()
    m = cfg["M"]
    inds = [Individual(rep.create_genotype(None), rep) for _ in range(m)]
    other = None
    if cfg.get("other_problem"):
        # the individuals already carry a fitness for ANOTHER problem that is still alive (a
        # population scored under one objective is handed to a selection for a second one)
        fit0 = SymFitness(ctx, TABLES[2])
        other = SingleObjectiveProblem(fit0, minimize=ctx.bool("minimize_other"))
        SequentialEvaluator().evaluate(other, list(inds))
    t = cfg["t"]
    k = cfg["K"] if cfg.get("K") else ctx.cint(1, m, "target")
    wr = cfg["wr"]
    r = LogRandom(ctx)
    pop = list(inds) if cfg.get("form", "list") == "list" else iter(list(inds))
    out = list(TournamentSelection(t, with_replacement=wr).apply(problem, SequentialEvaluator(), rep, r, pop, k, 1))
    ctx.reached()
    ctx.require(len(out) == k, "tournament:count", lambda: {"k": k, "yielded": len(out)})
    ctx.require(len(r.picked) == k * t, "tournament:unexpected-number-of-draws", lambda: {"draws": len(r.picked), "expected": k * t})

    def agg(i):
        return -fit.value_of(i.genotype) if minimize else fit.value_of(i.genotype)

    for j, w in enumerate(out):
        ctx.require(any(w is i for i in inds), "tournament:winner-not-a-population-member")
        part = r.picked[j * t : (j + 1) * t]
        ctx.require(any(w is p for p in part), "tournament:winner-was-not-drawn-for-its-tournament")
        for p in part:
            ctx.require(agg(w) >= agg(p), "tournament:winner-worse-than-a-participant", lambda: {"minimize": minimize, "winner": fit.value_of(w.genotype), "participant": fit.value_of(p.genotype)})


def _lexicase_keeps(cands, winner, order, vals, minimize, epsilon):
    """independent lexicase filter: does `winner` survive the cases in this order?"""
    import statistics

    cur = list(cands)
    for c in order:
        if len(cur) <= 1:
            break
        col = [vals[x.genotype.k][c] for x in cur]
        best = min(col) if minimize[c] else max(col)
        band = 0.0
        if epsilon:
            med = statistics.median(col)
            band = statistics.median([abs(v - med) for v in col])
        if minimize[c]:
            cur = [x for x in cur if vals[x.genotype.k][c] <= best + band]
        else:
            cur = [x for x in cur if vals[x.genotype.k][c] >= best - band]
    return any(winner is x for x in cur)


def h_lexicase(ctx: Ctx, cfg):
    ncases = cfg["cases"]
    minimize = [ctx.bool("minimize") for _ in range(ncases)]
    fit = SymFitness(ctx, TABLES[cfg.get("table", 2)], components=ncases)
    problem = MultiObjectiveProblem(list(minimize), fit)
    rep = TokRep()
    m = cfg["M"]
    inds = [Individual(rep.create_genotype(None), rep) for _ in range(m)]
    k = ctx.cint(1, cfg.get("K", 2), "target")
    eps = bool(cfg.get("epsilon"))
    out = list(LexicaseSelection(epsilon=eps).apply(problem, SequentialEvaluator(), rep, FreshRandom(ctx, concrete=eps), list(inds), k, 1))
    ctx.reached()
    ctx.require(len(out) == k, "lexicase:count", lambda: {"k": k, "yielded": len(out)})
    vals = {i.genotype.k: fit.value_of(i.genotype) for i in inds}
    avail = list(inds)
    for j, w in enumerate(out):
        ctx.require(any(w is a for a in avail), "lexicase:winner-not-available(non-member-or-too-many-copies)", lambda: {"round": j})
        ok = False
        for order in itertools.permutations(range(ncases)):
            if _lexicase_keeps(avail, w, order, vals, minimize, eps):
                ok = True
                break
        ctx.require(ok, "lexicase:winner-survives-no-case-order-among-available-candidates", lambda: {"round": j, "minimize": minimize, "winner": vals[w.genotype.k], "available": [vals[a.genotype.k] for a in avail]})
        avail = [a for a in avail if a is not w] + []
    # multiplicity
    for i in inds:
        ctx.require(sum(1 for o in out if o is i) <= 1, "lexicase:individual-returned-more-often-than-present")


HARNESSES = {"tournament": h_tournament, "lexicase": h_lexicase}


def obligations(tier: str):
    T = tier == "thorough"
    obs = []

    def add(h, name, timeout=100, **cfg):
        obs.append(Ob(h, cfg, name=name, timeout=timeout * (8 if T else 1)))

    for t in (1, 2, 3):
        for wr in (True, False):
            add("tournament", f"tournament_pop2_t{t}_{'repl' if wr else 'norepl'}", M=2, t=t, wr=wr, table=3 if t < 3 else 2, timeout=200)
    add("tournament", "tournament_pop2_t2_scored_under_another_problem", M=2, t=2, wr=True, table=2, other_problem=True, K=1 if not T else None, timeout=200)
    add("tournament", "tournament_pop2_t2_infinite_fitness", M=2, t=2, wr=True, table="inf", timeout=200)
    add("tournament", "tournament_iterator_pop2_t2", M=2, t=2, wr=False, table=2, form="iterator")
    if T:
        for t in (1, 2):  # t = 4 over 3 individuals: 3^(4k) draw sequences per target count k - not exhaustible
            for wr in (True, False):
                add("tournament", f"tournament_pop3_t{t}_{'repl' if wr else 'norepl'}", M=3, t=t, wr=wr, table=2)
    add("lexicase", "lexicase_1case", cases=1, M=3, K=2, table=3)
    add("lexicase", "lexicase_2cases_target1", cases=2, M=3, K=1, table=2, timeout=200)
    add("lexicase", "lexicase_2cases_pop2", cases=2, M=2, K=2, table=2, timeout=200)
    if T:
        add("lexicase", "lexicase_2cases", cases=2, M=3, K=2, table=2, timeout=200)
    add("lexicase", "lexicase_epsilon_1case", cases=1, M=3, K=2, table=3, epsilon=True)
    add("lexicase", "lexicase_epsilon_2cases", cases=2, M=3, K=1 if not T else 2, table=2, epsilon=True, timeout=200)
    # (target == population size is lexicase_2cases_pop2; lexicase selects without replacement, so a
    # target beyond the population size is outside the property's "never more copies than present")
    # (three cases: 4800 paths explored without a failing one, but CrossHair ended "not confirmed" - an
    # unknown path - twice; two cases is the stated bound)
    return obs
