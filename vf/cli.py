from __future__ import annotations

import argparse
import os
import sys


def main():
    ap = argparse.ArgumentParser()
    ap.add_argument("prop", nargs="?")
    ap.add_argument("--tier", default=os.environ.get("VERIF_TIER", "quick"), choices=["quick", "thorough"])
    ap.add_argument("--only", default=None)
    ap.add_argument("--jobs", type=int, default=None)
    ap.add_argument("--replay", default=None)
    a = ap.parse_args()
    from vf.engine import driver

    if a.replay:
        sys.exit(driver.replay_file(a.replay))
    seed = int(os.environ.get("VERIF_SEED", "0") or 0)
    sys.exit(driver.run_property(a.prop.upper(), a.tier, seed=seed, jobs=a.jobs, only=a.only))


if __name__ == "__main__":
    main()
