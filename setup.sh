#!/bin/bash
# Builds /verif/.venv: an overlay of the repository's /venv (python 3.12 + the repo's own
# dependencies) plus crosshair-tool and z3-solver from the offline wheelhouse. Idempotent.
set -e
cd "$(dirname "$0")"
VENV=/verif/.venv
STAMP=$VENV/.ok
if [ -f "$STAMP" ]; then exit 0; fi
rm -rf "$VENV"
/venv/bin/python -m venv "$VENV"
SP=$("$VENV/bin/python" -c 'import sysconfig; print(sysconfig.get_paths()["purelib"])')
printf '%s\n' "import site; site.addsitedir('/venv/lib/python3.12/site-packages')" > "$SP/_verif_overlay.pth"
PIP_NO_INDEX=1 "$VENV/bin/pip" install -q --no-index --find-links /opt/veriftools/wheels crosshair-tool z3-solver jsonschema >/dev/null
"$VENV/bin/python" -c 'import crosshair, z3, numpy, geneticengine' 
touch "$STAMP"
echo "setup ok: $VENV"
